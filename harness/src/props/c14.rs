//! C14 — channel monitors depend only on the current best chain.
//!
//! World: a regtest node with 1–2 real channels (real funding transaction, funding signed through
//! `check_onchain_tx`/`unchecked_sign_onchain_tx` for outbound channels, 0–2 full commitment rounds
//! with 0–3 HTLCs driven with valid counterparty signatures), so that the monitors in the node's
//! `ChainTracker` are the production `ChainMonitor`s with the production commitment-point provider.
//! Histories: connect / disconnect sequences over blocks built from the transaction pool of
//! `chainpool` (any grouping that respects spend order), compact or streamed.
//! Level A drives the `ChainListener` interface of the monitors exactly as
//! `ChainTracker::notify_listeners_add/remove` does; level B goes through
//! `ChainTracker::add_block/remove_block/block_chunk` with real headers and TXOO proofs built from
//! the tracker's own forward / reverse watches.  Wire delivery (`Case::wire`) builds the signer the
//! way vlsd does (`HandlerBuilder`, `HsmdInit`) and delivers every block of the history the way the
//! chain follower of a deployment does, with protocol messages to the `RootHandler` only
//! (`chainpool::wire_add` / `wire_remove`: `TipInfo`, `ForwardWatches` / `ReverseWatches`, proof for
//! exactly the watches of the reply, `BlockChunk`s, `AddBlock` / `RemoveBlock`); the fresh signer it
//! is compared with connects the best chain through the `ChainTracker` API.
//! Oracle: after every step the view (getters, serde dump of the monitor `State`, `ListenSlot`) of
//! every channel equals the view of a fresh signer that connected only the surviving best chain;
//! connect-then-disconnect restores the previous view; a panic while connecting / disconnecting is
//! a violation.

use crate::chainpool::*;
use crate::engine::*;
use crate::props::proto::{Negotiation, ProtoWorld};
use crate::world::*;
use lightning_signer::bitcoin::secp256k1::{PublicKey, SecretKey};
use proptest::prelude::*;
use serde::{Deserialize, Serialize};
use serde_json::{json, Value};

#[derive(Clone, Debug, Serialize, Deserialize, PartialEq, Eq, Hash)]
pub struct HSel {
    pub offered: bool,
    pub h: u8,
    pub amt: u8,
    pub cltv: u8,
}

#[derive(Clone, Debug, Serialize, Deserialize, PartialEq, Eq, Hash)]
pub struct ChanCase {
    pub anchors: bool,
    pub outbound: bool,
    pub fund: FundSpec,
    /// HTLCs of commitment 1, 2, … (0–2 rounds after the initial commitment)
    pub rounds: Vec<Vec<HSel>>,
    /// the signer learns the preimages of the received HTLCs of the last round
    pub fulfill: bool,
}

#[derive(Clone, Debug, Serialize, Deserialize, PartialEq, Eq, Hash)]
pub enum Step {
    /// connect a block holding the applicable ones of these transactions, in this order
    Connect { txs: Vec<TxSel>, stream: bool, chunk: u16, probe: bool },
    /// disconnect up to `depth` blocks from the tip
    Disconnect { depth: u8, stream: bool },
    /// wire delivery only (the handler persists the tracker after every block): the signer is
    /// rebuilt by `HandlerBuilder` from a copy of its store and the history continues on it
    Restart,
}

#[derive(Clone, Debug, Serialize, Deserialize)]
pub struct Case {
    pub level_b: bool,
    pub chans: Vec<ChanCase>,
    pub steps: Vec<Step>,
    /// every block of the history is connected / disconnected through protocol messages to the
    /// root handler of a signer built by `HandlerBuilder` (takes precedence over `level_b`)
    #[serde(default)]
    pub wire: bool,
    /// two outbound channels: both are funded by ONE transaction (batch open), checked and signed
    /// once
    #[serde(default)]
    pub batch: bool,
}

/// How the blocks reach the monitors.
#[derive(Clone, Copy, Debug, PartialEq, Eq, Hash)]
enum Mode {
    /// listener calls on the production monitors
    A,
    /// `ChainTracker::add_block` / `remove_block` / `block_chunk`
    B,
    /// protocol messages to the root handler
    Wire,
}

impl Case {
    fn mode(&self) -> Mode {
        if self.wire {
            Mode::Wire
        } else if self.level_b {
            Mode::B
        } else {
            Mode::A
        }
    }
    /// the fresh signer that replays the best chain: wire histories are compared with a signer
    /// driven through the tracker API
    fn twin_mode(&self) -> Mode {
        match self.mode() {
            Mode::Wire => Mode::B,
            m => m,
        }
    }
}

const AMTS: [u64; 3] = [10_000, 25_000, 400_000];
const CLTVS: [u32; 3] = [1_000, 1_010, 2_000];

fn mk_htlc(s: &HSel) -> Htlc {
    // offered and received HTLCs use disjoint payment hashes (no routed payment through one channel)
    Htlc { h: if s.offered { s.h % 2 } else { 2 + s.h % 2 }, sat: AMTS[s.amt as usize % 3], cltv: CLTVS[s.cltv as usize % 3] }
}

/// The system under test (or its fresh twin): a world, its channels' reference transactions and,
/// for level A, the directly driven listeners.
struct Sys {
    w: World,
    chans: Vec<ChanTxs>,
    direct: Option<DirectListeners>,
    /// wire delivery: the handlers serving `w.node`
    pw: Option<ProtoWorld>,
    wlog: WireLog,
    /// wire delivery: the message whose handler panicked last
    panic_site: Option<&'static str>,
}

type View = Vec<Vec<(String, Value)>>;

impl Sys {
    fn build(case: &Case) -> Result<Sys, String> {
        Sys::build_as(case, case.mode())
    }

    fn build_as(case: &Case, mode: Mode) -> Result<Sys, String> {
        // wire: the signer is built as vlsd builds it (HandlerBuilder over the in-memory store,
        // HsmdInit with the regtest genesis); the world's helpers act on the node of its handler
        let pw = if mode == Mode::Wire { Some(ProtoWorld::new(regtest_cfg(), 6, Negotiation::SignerCap)) } else { None };
        let mut w = match pw.as_ref() {
            Some(pw) => World::from_proto(pw),
            None => World::new(regtest_cfg()),
        };
        let payee = PublicKey::from_secret_key(&w.secp, &SecretKey::from_slice(&[5u8; 32]).unwrap());
        for h in 0u8..4 {
            w.node.add_keysend(payee, phash(h), 2_000_000_000).map_err(|e| format!("keysend: {:?}", e))?;
        }
        let mut chans = vec![];
        let batch = case.batch && case.chans.len() >= 2 && case.chans.iter().all(|c| c.outbound);
        let mut batched: Vec<crate::chainpool::Funded> = if batch {
            let specs: Vec<ChanSpec> = case.chans.iter().enumerate().map(|(i, cc)| {
                let mut spec = ChanSpec::basic(1 + i as u64);
                spec.anchors = cc.anchors;
                spec.outbound = cc.outbound;
                spec
            }).collect();
            crate::chainpool::open_funded_batch(&mut w, &specs, &case.chans[0].fund)
        } else {
            vec![]
        };
        batched.reverse();
        for (i, cc) in case.chans.iter().enumerate() {
            let mut spec = ChanSpec::basic(1 + i as u64);
            spec.anchors = cc.anchors;
            spec.outbound = cc.outbound;
            let f = if batch { batched.pop().expect("batch-funded channel") } else { open_funded(&mut w, &spec, &cc.fund) };
            let mut contents = vec![f.content0.clone()];
            for (k, hs) in cc.rounds.iter().enumerate() {
                let offered: Vec<Htlc> = hs.iter().filter(|h| h.offered).map(mk_htlc).collect();
                let received: Vec<Htlc> = hs.iter().filter(|h| !h.offered).map(mk_htlc).collect();
                let other = if cc.outbound { 0 } else { 600_000 };
                let c = mk_content(cc.anchors, cc.outbound, spec.value_sat, 1000, other, offered, received);
                advance(&mut w, f.ci, (k + 1) as u64, &c)?;
                contents.push(c);
            }
            let n = contents.len() as u64 - 1;
            if cc.fulfill {
                fulfill_received(&mut w, f.ci, &contents[n as usize]);
            }
            let revoked = if n >= 1 { Some((n - 1, &contents[n as usize - 1])) } else { None };
            chans.push(ChanTxs::build(&w, &f, (n, &contents[n as usize]), (n, &contents[n as usize]), revoked));
        }
        let direct = if mode == Mode::A { Some(DirectListeners::from_node(&w.node)) } else { None };
        Ok(Sys { w, chans, direct, pw, wlog: WireLog::default(), panic_site: None })
    }

    fn is_wire(&self) -> bool {
        self.pw.is_some()
    }

    fn add(&mut self, sb: &SimBlock, stream: bool, chunk: usize) -> Deliver {
        self.add_block(&sb.block, &sb.prev_filter_header, stream, chunk)
    }

    /// `prev_fh`: filter header of the block below (used by the wire follower only; the tracker
    /// level reads it from the tracker)
    fn add_block(&mut self, block: &lightning_signer::bitcoin::Block, prev_fh: &lightning_signer::bitcoin::hash_types::FilterHeader, stream: bool, chunk: usize) -> Deliver {
        if let Some(pw) = self.pw.as_ref() {
            return wire_add(&pw.root, block, prev_fh, stream, chunk, &mut self.wlog);
        }
        match self.direct.as_mut() {
            Some(d) => d.add(block, stream, chunk),
            None => tracker_add(&self.w.node, block, stream, chunk),
        }
    }

    /// `sim` still holds the block to be removed at its tip
    fn remove(&mut self, sim: &ChainSim, stream: bool, chunk: usize) -> Deliver {
        let sb = sim.blocks.last().expect("tip");
        if let Some(pw) = self.pw.as_ref() {
            return wire_remove(&pw.root, &sb.block, sim.prev_headers(), stream, chunk, &mut self.wlog);
        }
        match self.direct.as_mut() {
            Some(d) => d.remove(&sb.block, stream, chunk),
            None => tracker_remove(&self.w.node, &sb.block, sim.prev_headers(), stream, chunk),
        }
    }

    /// per-message result classes of the wire deliveries since the last call (each distinct
    /// (message, result) pair of a delivery counts once)
    fn flush_wire_classes(&mut self, st: &mut CaseStats) {
        if self.pw.is_none() {
            return;
        }
        if let Some(site) = self.wlog.panic_site() {
            self.panic_site = Some(site);
        }
        for c in self.wlog.classes() {
            st.class(c);
        }
        if self.wlog.chunks > 0 {
            st.class_n("wire:BlockChunk:messages", self.wlog.chunks);
        }
        if self.wlog.last_watches != (0, 0) {
            st.class("wire:watches_reply_nonempty");
        }
        self.wlog = WireLog::default();
    }

    fn view(&self) -> Result<View, String> {
        match self.direct.as_ref() {
            Some(d) => d.listeners.iter().map(|(_, m, s)| monitor_view(m, s)).collect(),
            None => {
                let tracker = std::panic::catch_unwind(std::panic::AssertUnwindSafe(|| self.w.node.get_tracker())).map_err(|_| "tracker lock poisoned".to_string())?;
                tracker.listeners.values().map(|(m, s)| monitor_view(m, s)).collect()
            }
        }
    }
}

fn diff_views(a: &View, b: &View) -> Option<(usize, String, Value, Value)> {
    for (i, (x, y)) in a.iter().zip(b.iter()).enumerate() {
        if let Some((f, va, vb)) = view_diff(x, y) {
            return Some((i, f, va, vb));
        }
    }
    None
}

fn kinds_of(txs: &[PoolTx]) -> Vec<&'static str> {
    txs.iter().map(|t| t.kind).collect()
}

/// `ctx.report`, plus a debugging knob for sensitivity runs: signatures starting with one of the
/// comma-separated prefixes in VERIF_C14_IGNORE are recorded like known findings.
fn report(ctx: &Ctx, st: &mut CaseStats, v: Violation) -> Result<(), Violation> {
    if !ctx.strict {
        if let Ok(ign) = std::env::var("VERIF_C14_IGNORE") {
            if ign.split(',').any(|p| !p.is_empty() && v.sig.starts_with(p)) {
                st.known.push(v.sig);
                return Ok(());
            }
        }
    }
    ctx.report(st, v)
}

pub struct C14;

impl C14 {
    /// Report a failure of `case`.  A failure of a wire history is first looked for in the same
    /// history delivered through the `ChainTracker` API: if it does not show there with the same
    /// signature, it is specific to the protocol handlers and the signature gets the suffix `:wire`.
    fn report_case(&self, ctx: &Ctx, st: &mut CaseStats, case: &Case, mut v: Violation) -> Result<(), Violation> {
        if case.wire {
            let mut api = case.clone();
            api.wire = false;
            api.level_b = true;
            let strict = Ctx { id: ctx.id, tier: ctx.tier, seed: ctx.seed, known: Known::default(), strict: true, list_all: false };
            let mut scratch = CaseStats::default();
            let r = std::panic::catch_unwind(std::panic::AssertUnwindSafe(|| self.run_inner(&api, &mut scratch, &strict)));
            let same = matches!(&r, Ok(Err(v2)) if v2.sig == v.sig);
            st.class(if same { "wire_failure_also_at_tracker_api" } else { "wire_only_failure" });
            if !same {
                v.sig.push_str(":wire");
                v.msg.push_str(" [wire delivery through the root handler; the same history delivered through the ChainTracker API does not fail with this signature]");
            } else {
                v.msg.push_str(" [wire delivery; the same history fails alike through the ChainTracker API]");
            }
        }
        report(ctx, st, v)
    }

    /// Name the cause of an abort experimentally: the first candidate sub-block of the aborting
    /// block (see `abort_candidates`) that also aborts a fresh signer on the same chain.
    fn cause(&self, case: &Case, sim: &ChainSim, removal: bool, stream: bool) -> String {
        let b = sim.blocks.last().expect("aborting block at the tip");
        let mut base = sim.clone();
        base.pop();
        for (name, txs) in abort_candidates(&b.txs, removal) {
            let Ok(mut s) = Sys::build(case) else { continue };
            if base.blocks.iter().any(|sb| !matches!(s.add(sb, false, 0), Deliver::Ok)) {
                continue;
            }
            let block = make_block(&base.tip_header(), base.height() + 1, 0xC14, txs.iter().map(|t| t.tx.clone()).collect());
            let mut sim2 = base.clone();
            sim2.push(block, txs);
            let sb = sim2.blocks.last().unwrap().clone();
            let r = s.add(&sb, stream, 0);
            if !removal {
                if matches!(r, Deliver::Panic(_)) {
                    return name;
                }
                continue;
            }
            if matches!(r, Deliver::Ok) && matches!(s.remove(&sim2, stream, 0), Deliver::Panic(_)) {
                return name;
            }
        }
        block_categories(&b.txs)
    }

    /// `sim` holds the aborting block at its tip
    fn abort(&self, ctx: &Ctx, st: &mut CaseStats, case: &Case, sim: &ChainSim, removal: bool, stream: bool, msg: &str, i: usize, twin: bool, site: Option<&'static str>) -> Result<(), Violation> {
        let dir = if removal { "remove" } else { "add" };
        let txs = &sim.blocks.last().expect("tip").txs;
        st.class(format!("abort:{}", dir));
        // the AddBlock handler panics ("add_block") when the tracker refuses a block that is not an
        // orphan: the block was refused, not mishandled by a monitor
        let cause = if case.wire && !twin && !removal && msg == "add_block" { "valid-block-refused".to_string() } else { self.cause(case, sim, removal, stream) };
        if std::env::var("VERIF_C14_DEBUG").is_ok() {
            eprintln!("DBG abort:{}:{} kinds={:?} twin={} msg={}", dir, cause, kinds_of(txs), twin, msg);
        }
        self.report_case(
            ctx,
            st,
            case,
            Violation::new(
                format!("C14:abort:{}:{}", dir, cause),
                format!(
                    "step {}: the signer panicked{} while {} a block holding {:?}{} (smallest aborting sub-block: {}): {}",
                    i,
                    site.map(|s| format!(" in the handler of {}", s)).unwrap_or_default(),
                    if removal { "disconnecting" } else { "connecting" },
                    kinds_of(txs),
                    if twin { " (during the replay of the best chain on a fresh signer)" } else { "" },
                    cause,
                    msg
                ),
            ),
        )
    }
}

impl C14 {
    /// `ChainTracker::remove_block` returned an error for the removal of its own tip with a proof
    /// built from its own reverse watches.  The protocol handler (`Message::RemoveBlock`,
    /// vls-protocol-signer handler.rs) `expect`s this result, i.e. the signer aborts.
    ///
    /// `wire_external`: wire delivery, where the refusal is the handler's panic itself
    /// ("remove_block: <error>"); Some(whether the block was streamed).
    fn refused_removal(&self, ctx: &Ctx, st: &mut CaseStats, case: &Case, stream: bool, err: &str, txs: &[PoolTx], i: usize, wire_external: Option<bool>) -> Result<(), Violation> {
        // a compact request is delivered streamed when the filter has a false positive
        let external = wire_external.unwrap_or(err.starts_with("[external] "));
        let err = err.trim_start_matches("[external] ");
        let kind = err.split('(').next().unwrap_or("error").trim().to_string();
        if !stream && !external {
            if wire_external.is_none() {
                panic!("step {}: tracker refused the compact removal of its tip: {}", i, err);
            }
            // the follower's proof was built for exactly the watches of the ReverseWatches reply
            st.class("abort:remove:compact-refused");
            return self.report_case(
                ctx,
                st,
                case,
                Violation::new(
                    format!("C14:abort:remove:compact-removal-refused:{}", kind),
                    format!(
                        "step {}: the RemoveBlock handler panicked: ChainTracker::remove_block refused the removal of the signer's tip (block holding {:?}) with {}; \
                         the proof was built for exactly the watches of the signer's ReverseWatches reply",
                        i,
                        kinds_of(txs),
                        err
                    ),
                ),
            );
        }
        st.class("abort:remove:streamed-refused");
        self.report_case(
            ctx,
            st,
            case,
            Violation::new(
                format!("C14:abort:remove:streamed-removal-refused:{}", kind),
                format!(
                    "step {}: ChainTracker::remove_block refused the streamed (ExternalBlock) removal of its tip (block holding {:?}) with {}; \
                     the RemoveBlock handler expect()s this result, so a streamed reorganisation aborts the signer",
                    i,
                    kinds_of(txs),
                    err
                ),
            ),
        )
    }
}

impl C14 {
    /// Result of connecting the tip of `sim`: Ok(true) = connected, Ok(false) = the history ends
    /// here (a known finding fired).
    fn add_outcome(&self, ctx: &Ctx, st: &mut CaseStats, case: &Case, sim: &ChainSim, stream: bool, d: Deliver, i: usize, twin: bool, site: Option<&'static str>) -> Result<bool, Violation> {
        match d {
            Deliver::Ok => Ok(true),
            Deliver::Refused(e) => panic!("step {}: {}tracker refused a valid block: {}", i, if twin { "twin " } else { "" }, e),
            Deliver::Panic(m) => {
                self.abort(ctx, st, case, sim, false, stream, &m, i, twin, site)?;
                Ok(false)
            }
        }
    }

    /// Result of disconnecting the tip of `sim` (still present in `sim`); `wire_external`:
    /// Some(streamed?) for a wire delivery.
    fn remove_outcome(&self, ctx: &Ctx, st: &mut CaseStats, case: &Case, sim: &ChainSim, stream: bool, d: Deliver, i: usize, wire_external: Option<bool>, site: Option<&'static str>) -> Result<bool, Violation> {
        let ptxs = &sim.blocks.last().expect("tip").txs;
        match d {
            Deliver::Ok => Ok(true),
            Deliver::Refused(e) => {
                if wire_external.is_some() {
                    // the follower did not get as far as RemoveBlock (TipInfo names another block,
                    // an error reply): the harness lost track of the signer
                    panic!("step {}: wire removal of the tip not possible: {}", i, e);
                }
                self.refused_removal(ctx, st, case, stream, &e, ptxs, i, None)?;
                Ok(false)
            }
            Deliver::Panic(m) => {
                match (wire_external, m.strip_prefix("remove_block: ")) {
                    // the RemoveBlock handler expect()s the tracker's result
                    (Some(ext), Some(err)) => self.refused_removal(ctx, st, case, stream, err, ptxs, i, Some(ext))?,
                    _ => self.abort(ctx, st, case, sim, true, stream, &m, i, false, site)?,
                }
                Ok(false)
            }
        }
    }
}

impl Prop for C14 {
    type Case = Case;
    fn id(&self) -> &'static str {
        "C14"
    }
    fn rule(&self) -> String {
        "A regtest node with 1-2 real channels (anchors or not, outbound with the funding transaction signed through the signer, or \
         inbound; 0-2 commitment rounds with 0-3 HTLCs each, received preimages known or not).  Histories of 4-24 steps (60 % start with \
         the funding transactions confirmed): connect a \
         block holding 0-5 pool transactions (funding, double-spend of a funding input, mutual close, holder / counterparty / revoked \
         counterparty commitment, sweep of our or their main output, anchor spend, batched first-level HTLC spends with optional fee \
         input first/last and paired or merged outputs, second-level spends, noise; inapplicable ones are dropped, so every block is \
         valid on its chain and parents precede children, possibly in the same block), delivered compact or streamed (chunked), or \
         disconnect 1-6 blocks (streamed with probability 0.12).  A connect may be probed (connect, disconnect, compare, connect).  Level A (2/3 of the cases) performs \
         the listener calls and slot bookkeeping of ChainTracker::notify_listeners_* on the production monitors; level B goes through \
         ChainTracker::add_block/remove_block/block_chunk with mined headers and TXOO proofs built from the tracker's own watches.  \
         Wire delivery (30 % of the cases, overriding the level): the signer is built by HandlerBuilder + HsmdInit as vlsd builds it and every \
         block of the history is connected / disconnected as the chain follower does it, with protocol messages to the root handler only \
         (TipInfo, ForwardWatches / ReverseWatches, proof for exactly the watches of the reply, BlockChunk messages of the chosen size for an \
         ExternalBlock proof, AddBlock / RemoveBlock; requests and replies cross the wire encoding); a streamed connect is now and then \
         preceded by a streamed orphan (answered with the orphan error code); the fresh signer of the oracle connects the best chain \
         through the ChainTracker API.  A panic of a handler is an abort; failures that do not show with the same signature when the \
         same history is delivered through the ChainTracker API carry the signature suffix :wire.  \
         Oracle after every step: view (funding / double-spend / closing depth, is_done, diagnostic, serde dump of the monitor state \
         minus saw_block, forward watches, seen set, txid watches) equals that of a fresh signer that connected only the surviving \
         chain; probe restores the previous view; no panic.  Non-trivial: a disconnect (or probe) of a block that holds >= 2 \
         monitor-relevant transactions or a close; distinct by (level, per-step change-kind sequence)."
            .into()
    }
    fn assumptions(&self) -> Vec<String> {
        vec![
            "saw_block (a readiness flag, true once any block was delivered) is not part of the compared view".into(),
            "the order of second-level HTLC outputs inside the monitor state is not part of the view (compared as a set)".into(),
            "level A passes all non-coinbase transactions of a block to on_add_block/on_remove_block (a superset of what an SPV proof would carry)".into(),
            "blocks are consensus-valid on their chain: no outpoint is spent twice on one chain, parents precede children".into(),
            "level B mirrors the protocol handler, which expect()s the result of ChainTracker::remove_block: an error returned for the removal of the tracker's own tip with a proof built from its own reverse watches counts as an abort".into(),
            "the counterparty's revoked commitment (previous state, properly revoked) is part of the commitment transactions of the quantifier".into(),
            "wire delivery: the follower takes the filter header of the parent block from its own chain (no protocol message reports it) and the attestation height from TipInfo; it removes a block only if TipInfo names it".into(),
            "wire delivery: a valid block of the best chain that the AddBlock / RemoveBlock handler answers with a panic (the handlers expect() the tracker's result) is an abort of the signer; wire histories restart the signer from its store between blocks".into(),
        ]
    }
    fn cases(&self, tier: Tier) -> u32 {
        tier.pick(500, 4000)
    }
    fn min_nontrivial(&self, tier: Tier) -> usize {
        tier.pick(300, 3000)
    }
    fn strategy(&self, tier: Tier) -> BoxedStrategy<Case> {
        let max_steps = tier.pick(24usize, 40usize);
        let max_depth = tier.pick(6u8, 12u8);
        let hsel = (any::<bool>(), 0u8..4, 0u8..3, 0u8..3).prop_map(|(offered, h, amt, cltv)| HSel { offered, h, amt, cltv });
        let chan = (
            any::<bool>(),
            prop::bool::weighted(0.75),
            any::<bool>(),
            any::<bool>(),
            prop_oneof![
                1 => Just(vec![]),
                4 => proptest::collection::vec(prop_oneof![1 => proptest::collection::vec(hsel.clone(), 0..2), 5 => proptest::collection::vec(hsel.clone(), 1..4)], 1..2),
                3 => proptest::collection::vec(prop_oneof![1 => proptest::collection::vec(hsel.clone(), 0..2), 5 => proptest::collection::vec(hsel.clone(), 1..4)], 2..3),
            ],
            any::<bool>(),
        )
            .prop_map(|(anchors, outbound, two_inputs, funding_first, rounds, fulfill)| ChanCase { anchors, outbound, fund: FundSpec { two_inputs, funding_first }, rounds, fulfill });
        let c = 0u8..2;
        let fee = prop_oneof![3 => Just(FeePos::None), 1 => Just(FeePos::First), 2 => Just(FeePos::Last)];
        let sel = prop_oneof![
            4 => c.clone().prop_map(|c| TxSel::Funding { c }),
            1 => (c.clone(), 0u8..2, 0u8..2).prop_map(|(c, input, salt)| TxSel::DoubleSpend { c, input, salt }),
            1 => (c.clone(), 0u8..2).prop_map(|(c, salt)| TxSel::Mutual { c, salt }),
            3 => c.clone().prop_map(|c| TxSel::HolderCommit { c }),
            3 => c.clone().prop_map(|c| TxSel::CpCommit { c }),
            1 => c.clone().prop_map(|c| TxSel::CpRevoked { c }),
            3 => (c.clone(), 0u8..2).prop_map(|(c, salt)| TxSel::SweepOurs { c, salt }),
            1 => c.clone().prop_map(|c| TxSel::SweepTheirs { c }),
            1 => (c.clone(), any::<u16>()).prop_map(|(c, which)| TxSel::SpendAnchor { c, which }),
            7 => (c.clone(), proptest::collection::vec(any::<u16>(), 1..4), fee, prop::bool::weighted(0.15), 0u8..2)
                .prop_map(|(c, which, fee, merge, salt)| TxSel::HtlcSpend { c, which, fee, merge, salt }),
            6 => (c.clone(), any::<u16>(), 0u8..2).prop_map(|(c, k, salt)| TxSel::SecondLevel { c, k, salt }),
            2 => (0u8..6).prop_map(|n| TxSel::Noise { n }),
        ];
        let step = prop_oneof![
            7 => (proptest::collection::vec(sel, 0..6), prop::bool::weighted(0.3), prop_oneof![Just(0u16), 1u16..400], prop::bool::weighted(0.3))
                .prop_map(|(txs, stream, chunk, probe)| Step::Connect { txs, stream, chunk, probe }),
            2 => (prop_oneof![5 => Just(1u8), 3 => Just(2u8), 2 => Just(3u8), 3 => 4u8..=max_depth], prop::bool::weighted(0.12))
                .prop_map(|(depth, stream)| Step::Disconnect { depth, stream }),
            1 => Just(Step::Restart),
        ];
        (prop::bool::weighted(0.34), proptest::collection::vec(chan, 1..3), prop::bool::weighted(0.6), proptest::collection::vec(step, 4..max_steps), prop::bool::weighted(0.3), prop::bool::weighted(0.5))
            .prop_map(|(level_b, chans, prefund, mut steps, wire, batch)| {
                if prefund {
                    // most histories start with the funding transactions confirmed
                    steps.insert(0, Step::Connect { txs: vec![TxSel::Funding { c: 0 }, TxSel::Funding { c: 1 }], stream: false, chunk: 0, probe: false });
                }
                let batch = batch && chans.len() >= 2 && chans.iter().all(|c| c.outbound);
                Case { level_b, chans, steps, wire, batch }
            })
            .boxed()
    }

    fn fixed_cases(&self) -> Vec<Case> {
        if std::env::var("VERIF_C14_NOFIXED").is_ok() {
            // sensitivity runs: measure the random search alone
            return vec![];
        }
        // the same-block groupings named by the property, each reorged once
        let chan = |rounds: Vec<Vec<HSel>>| ChanCase { anchors: false, outbound: true, fund: FundSpec { two_inputs: true, funding_first: true }, rounds, fulfill: false };
        let h = HSel { offered: true, h: 0, amt: 1, cltv: 0 };
        let connect = |txs: Vec<TxSel>| Step::Connect { txs, stream: false, chunk: 0, probe: false };
        let dis = Step::Disconnect { depth: 1, stream: false };
        let hs = |c| TxSel::HtlcSpend { c, which: vec![0], fee: FeePos::None, merge: false, salt: 0 };
        let mut v = vec![];
        for (level_b, wire) in [(false, false), (true, false), (true, true)] {
            // close and sweep in one block
            v.push(Case { batch: false, level_b, wire, chans: vec![chan(vec![])], steps: vec![connect(vec![TxSel::Funding { c: 0 }]), connect(vec![TxSel::HolderCommit { c: 0 }, TxSel::SweepOurs { c: 0, salt: 0 }]), dis.clone()] });
            // HTLC spend and second-level spend in one block
            v.push(Case {
                batch: false,
                level_b,
                wire,
                chans: vec![chan(vec![vec![h.clone()]])],
                steps: vec![connect(vec![TxSel::Funding { c: 0 }]), connect(vec![TxSel::HolderCommit { c: 0 }]), connect(vec![hs(0), TxSel::SecondLevel { c: 0, k: 0, salt: 0 }]), dis.clone()],
            });
            // close and first-level HTLC spend in one block
            v.push(Case {
                batch: false,
                level_b,
                wire,
                chans: vec![chan(vec![vec![h.clone()]])],
                steps: vec![connect(vec![TxSel::Funding { c: 0 }]), connect(vec![TxSel::HolderCommit { c: 0 }, hs(0)]), dis.clone()],
            });
            // a first-level HTLC spend connected and disconnected (probe)
            v.push(Case {
                batch: false,
                level_b,
                wire,
                chans: vec![chan(vec![vec![h.clone()]])],
                steps: vec![connect(vec![TxSel::Funding { c: 0 }]), connect(vec![TxSel::CpCommit { c: 0 }]), Step::Connect { txs: vec![hs(0)], stream: false, chunk: 0, probe: true }],
            });
            // a first-level HTLC spend reorged out
            v.push(Case {
                batch: false,
                level_b,
                wire,
                chans: vec![chan(vec![vec![h.clone()]])],
                steps: vec![connect(vec![TxSel::Funding { c: 0 }]), connect(vec![TxSel::HolderCommit { c: 0 }]), connect(vec![hs(0)]), dis.clone()],
            });
            // the counterparty's revoked commitment (with an HTLC) confirms
            v.push(Case { batch: false, level_b, wire, chans: vec![chan(vec![vec![h.clone()], vec![]])], steps: vec![connect(vec![TxSel::Funding { c: 0 }]), connect(vec![TxSel::CpRevoked { c: 0 }])] });
            // a streamed block is disconnected
            v.push(Case {
                batch: false,
                level_b,
                wire,
                chans: vec![chan(vec![])],
                steps: vec![connect(vec![TxSel::Funding { c: 0 }]), Step::Connect { txs: vec![TxSel::Noise { n: 0 }], stream: true, chunk: 100, probe: false }, Step::Disconnect { depth: 1, stream: true }],
            });
            // every transaction in its own block, unwound completely and replayed
            v.push(Case {
                batch: false,
                level_b,
                wire,
                chans: vec![chan(vec![vec![h.clone()]])],
                steps: vec![
                    connect(vec![TxSel::Funding { c: 0 }]),
                    connect(vec![TxSel::HolderCommit { c: 0 }]),
                    connect(vec![TxSel::SweepOurs { c: 0, salt: 0 }]),
                    connect(vec![hs(0)]),
                    connect(vec![TxSel::SecondLevel { c: 0, k: 0, salt: 0 }]),
                    Step::Disconnect { depth: 1, stream: false },
                    Step::Disconnect { depth: 1, stream: false },
                    connect(vec![hs(0)]),
                    connect(vec![TxSel::SecondLevel { c: 0, k: 0, salt: 0 }]),
                    Step::Disconnect { depth: 5, stream: false },
                ],
            });
        }
        // a reorganisation as deep as the whole remembered window (100 blocks) after a restart of
        // the signer: it must be followed, and the funding is then unconfirmed again
        {
            let mut steps = vec![connect(vec![TxSel::Funding { c: 0 }])];
            for _ in 0..100 {
                steps.push(connect(vec![]));
            }
            steps.push(Step::Restart);
            steps.push(Step::Disconnect { depth: 100, stream: false });
            steps.push(connect(vec![TxSel::Funding { c: 0 }]));
            v.push(Case { batch: false, level_b: true, wire: true, chans: vec![chan(vec![])], steps });
        }
        v
    }

    fn run(&self, case: &Case, st: &mut CaseStats, ctx: &Ctx) -> Result<(), Violation> {
        let t0 = std::time::Instant::now();
        let r = self.run_inner(case, st, ctx);
        if std::env::var("VERIF_C14_TIMING").is_ok() {
            eprintln!("TIMING {} ms mode={:?} chans={} steps={}", t0.elapsed().as_millis(), case.mode(), case.chans.len(), case.steps.len());
        }
        r
    }
}

impl C14 {
    fn run_inner(&self, case: &Case, st: &mut CaseStats, ctx: &Ctx) -> Result<(), Violation> {
        if case.batch {
            st.class("batch_funding_history");
        }
        let mode = case.mode();
        let mut sys = match Sys::build(case) {
            Ok(s) => s,
            Err(e) => {
                // a commitment round was refused by policy: the channel state cannot be reached
                st.class("setup_refused");
                if std::env::var("VERIF_ERRCLASS").is_ok() {
                    st.class(format!("E:setup:{}", crate::props::holder::short_err(&e)));
                }
                return Ok(());
            }
        };
        let mut twin = Sys::build_as(case, case.twin_mode()).expect("twin builds like the original");
        let mut sim = ChainSim::new(lightning_signer::bitcoin::Network::Regtest);
        st.class(match mode {
            Mode::A => "level_A",
            Mode::B => "level_B",
            Mode::Wire => "wire_delivery",
        });
        st.class(format!("channels:{}", case.chans.len()));
        let wire = sys.is_wire();

        // the initial views agree (sanity of the twin construction)
        let v0 = sys.view().expect("view");
        let t0 = twin.view().expect("view");
        if let Some((ci, f, a, b)) = diff_views(&v0, &t0) {
            panic!("twin differs before any block: chan {} field {}: {} vs {}", ci, f, a, b);
        }

        let mut shape: Vec<(u8, String)> = vec![];
        let mut nontrivial = false;
        let mut trace: Vec<Value> = vec![];
        let mut max_reorg = 0usize;

        'steps: for (i, step) in case.steps.iter().enumerate() {
            match step {
                Step::Connect { txs, stream, chunk, probe } => {
                    let (block, ptxs) = sim.build_block(txs, &sys.chans, i as u64);
                    let cats = block_categories(&ptxs);
                    let relevant = ptxs.iter().filter(|t| category(t.kind).is_some()).count();
                    let has_close = ptxs.iter().any(|t| matches!(category(t.kind), Some("close") | Some("mutual")));
                    for t in ptxs.iter() {
                        st.class(format!("tx:{}", t.kind));
                    }
                    if relevant >= 2 {
                        st.class("block_with_2+_relevant_txs");
                        let chains: std::collections::BTreeSet<String> = abort_candidates(&ptxs, true).into_iter().map(|(n, _)| n).filter(|n| n.contains('+')).collect();
                        for name in chains {
                            st.class(format!("same_block_chain:{}", name));
                        }
                    }
                    st.class(if *stream { "connect:streamed" } else { "connect:compact" });
                    if wire {
                        st.class(if *stream { "wire:connect:streamed" } else { "wire:connect:compact" });
                        if relevant >= 1 {
                            st.class("wire:connect:monitor_relevant_block");
                        }
                    }
                    let before = if *probe { Some(sys.view().expect("view")) } else { None };
                    sim.push(block, ptxs.clone());
                    let sb = sim.blocks.last().unwrap().clone();
                    if trace.len() < 40 {
                        trace.push(json!({"step": i, "connect": kinds_of(&ptxs), "height": sim.height(), "stream": stream, "probe": probe}));
                    }
                    if sys.direct.is_none() && *stream && *chunk % 3 == 0 {
                        // first an orphan twin of the block (it does not build on the tip) is
                        // streamed: the tracker refuses it (over the wire: SignerError with the
                        // orphan code), and that must leave nothing behind in the monitors (the real
                        // block follows, streamed as well)
                        let mut orphan = sb.block.clone();
                        orphan.header.prev_blockhash = { use lightning_signer::bitcoin::hashes::Hash; lightning_signer::bitcoin::BlockHash::from_byte_array([0x0f; 32]) };
                        let d = sys.add_block(&orphan, &sb.prev_filter_header, true, *chunk as usize);
                        sys.flush_wire_classes(st);
                        match d {
                            Deliver::Refused(_) => st.class("refused_streamed_orphan_before_connect"),
                            Deliver::Ok => panic!("step {}: tracker accepted an orphan block", i),
                            Deliver::Panic(m) => {
                                self.abort(ctx, st, case, &sim, false, true, &m, i, false, sys.panic_site)?;
                                break 'steps;
                            }
                        }
                    }
                    let d = sys.add(&sb, *stream, *chunk as usize);
                    sys.flush_wire_classes(st);
                    if !self.add_outcome(ctx, st, case, &sim, *stream, d, i, false, sys.panic_site)? {
                        break 'steps;
                    }
                    shape.push((0, cats.clone()));
                    if let Some(before) = before {
                        st.class("probe");
                        let d = sys.remove(&sim, *stream, *chunk as usize);
                        let ext = if wire { Some(sys.wlog.chunks > 0) } else { None };
                        sys.flush_wire_classes(st);
                        if !self.remove_outcome(ctx, st, case, &sim, *stream, d, i, ext, sys.panic_site)? {
                            break 'steps;
                        }
                        if relevant >= 2 || has_close {
                            nontrivial = true;
                        }
                        shape.push((2, cats.clone()));
                        let after = sys.view().expect("view");
                        if let Some((ci, f, a, b)) = diff_views(&before, &after) {
                            st.class("probe_not_identity");
                            if std::env::var("VERIF_C14_DEBUG").is_ok() {
                                eprintln!("DBG2 probe {} mode={:?} kinds={:?} a={} b={}", f, mode, kinds_of(&ptxs), a, b);
                            }
                            self.report_case(
                                ctx,
                                st,
                                case,
                                Violation::new(
                                    format!("C14:connect-disconnect-not-identity:{}", f),
                                    format!("step {}: channel {}: connecting and disconnecting a block holding {:?} changed {} from {} to {}", i, ci, kinds_of(&ptxs), f, a, b),
                                ),
                            )?;
                            break 'steps;
                        }
                        let d = sys.add(&sb, *stream, *chunk as usize);
                        sys.flush_wire_classes(st);
                        if !self.add_outcome(ctx, st, case, &sim, *stream, d, i, false, sys.panic_site)? {
                            break 'steps;
                        }
                    }
                    // the twin connects the same block (compact)
                    let d = twin.add(&sb, false, 0);
                    if !self.add_outcome(ctx, st, case, &sim, false, d, i, true, None)? {
                        break 'steps;
                    }
                }
                Step::Restart => {
                    if !wire {
                        continue;
                    }
                    if case.chans.iter().any(|c| c.fulfill) {
                        // payment preimages the signer has been told are kept in memory only, so a
                        // restarted signer no longer counts the received HTLC outputs of its own
                        // commitment among its outputs; the property is about the chain, not about
                        // that: such histories have no restart (counted)
                        st.class("wire:restart-skipped(preimages are known in memory only)");
                        continue;
                    }
                    let pw = sys.pw.as_mut().expect("wire mode has a handler");
                    if !pw.restart().is_ok() {
                        st.class("wire:restart-failed");
                        break 'steps;
                    }
                    sys.w.rebind_proto(sys.pw.as_ref().unwrap());
                    st.class("wire:restart");
                    shape.push((3, String::new()));
                    if trace.len() < 40 {
                        trace.push(json!({"step": i, "restart": true, "height": sim.height()}));
                    }
                }
                Step::Disconnect { depth, stream } => {
                    let d = (*depth as usize).min(sim.blocks.len());
                    if d == 0 {
                        continue;
                    }
                    st.class(format!("reorg_depth:{}", d));
                    st.class(if *stream { "disconnect:streamed" } else { "disconnect:compact" });
                    if wire {
                        st.class(if *stream { "wire:disconnect:streamed" } else { "wire:disconnect:compact" });
                    }
                    max_reorg = max_reorg.max(d);
                    let mut removed = vec![];
                    for _ in 0..d {
                        let ptxs = sim.blocks.last().unwrap().txs.clone();
                        let cats = block_categories(&ptxs);
                        let relevant = ptxs.iter().filter(|t| category(t.kind).is_some()).count();
                        let has_close = ptxs.iter().any(|t| matches!(category(t.kind), Some("close") | Some("mutual")));
                        let r = sys.remove(&sim, *stream, 0);
                        let ext = if wire { Some(sys.wlog.chunks > 0) } else { None };
                        sys.flush_wire_classes(st);
                        if !self.remove_outcome(ctx, st, case, &sim, *stream, r, i, ext, sys.panic_site)? {
                            break 'steps;
                        }
                        if relevant >= 2 || has_close {
                            nontrivial = true;
                            st.class(if has_close { "reorg_across_close" } else { "reorg_across_2+_relevant" });
                            if wire {
                                st.class("wire:reorg_across_close_or_2+_relevant");
                            }
                        }
                        if relevant >= 1 {
                            st.class(format!("reorg_across:{}", cats));
                        }
                        shape.push((1, cats.clone()));
                        removed.push(kinds_of(&ptxs));
                        sim.pop();
                    }
                    if trace.len() < 40 {
                        trace.push(json!({"step": i, "disconnect": removed, "height": sim.height(), "stream": stream}));
                    }
                    // a fresh signer connects the surviving chain
                    twin = Sys::build_as(case, case.twin_mode()).expect("twin builds like the original");
                    for (k, sb) in sim.blocks.iter().enumerate() {
                        let r = twin.add(sb, false, 0);
                        if !matches!(r, Deliver::Ok) {
                            let mut upto = sim.clone();
                            upto.blocks.truncate(k + 1);
                            if !self.add_outcome(ctx, st, case, &upto, false, r, i, true, None)? {
                                break 'steps;
                            }
                        }
                    }
                }
            }
            let a = sys.view().expect("view");
            let b = twin.view().expect("view");
            if let Some((ci, f, va, vb)) = diff_views(&a, &b) {
                st.class("view_differs");
                if std::env::var("VERIF_C14_DEBUG").is_ok() {
                    eprintln!("DBG2 view-differs {} mode={:?} step={:?} a={} b={}", f, mode, step, va, vb);
                }
                self.report_case(
                    ctx,
                    st,
                    case,
                    Violation::new(
                        format!("C14:view-differs-from-best-chain-replay:{}", f),
                        format!(
                            "after step {} ({:?}): channel {}: {} is {} but a fresh signer that connected only the {} blocks of the best chain has {}",
                            i,
                            step,
                            ci,
                            f,
                            va,
                            sim.height(),
                            vb
                        ),
                    ),
                )?;
                break 'steps;
            }
        }
        st.class(format!("max_reorg_depth:{}", max_reorg));
        st.sample = Some(json!({"level": match mode { Mode::A => "A", Mode::B => "B", Mode::Wire => "wire" }, "chans": case.chans, "trace": trace}));
        if nontrivial {
            st.class("nontrivial");
            if wire {
                st.class("wire:nontrivial");
            }
            // (false, _) / (true, _) as before the wire mode existed; wire histories hash apart
            match mode {
                Mode::Wire => st.nontrivial_shape(("wire", shape)),
                _ => st.nontrivial_shape((case.level_b, shape)),
            }
        }
        Ok(())
    }
}
