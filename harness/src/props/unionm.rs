//! Union request machine shared by C10 (a refused request changes nothing) and C11 (every
//! acknowledged state change is already durable): commitment requests on both sides of up to
//! three channels, payments, on-chain checks, allowlist edits, block add/remove through the
//! node's tracker (with the handler's persist envelope), channel lifecycle, heartbeat, clock,
//! restart; plain or cloud-staged persister.

use crate::props::holder::{finish_content, short_err, HSel};
use crate::props::proto::{Negotiation, ProtoWorld, To};
use crate::world::*;
use lightning_signer::bitcoin;
use lightning_signer::bitcoin::absolute::LockTime;
use lightning_signer::bitcoin::bip32::{ChildNumber, DerivationPath};
use lightning_signer::bitcoin::block::Header as BlockHeader;
use lightning_signer::bitcoin::hashes::Hash;
use lightning_signer::bitcoin::secp256k1::{PublicKey, SecretKey};
use lightning_signer::bitcoin::transaction::Version;
use lightning_signer::bitcoin::{Address, Amount, CompressedPublicKey, Network, OutPoint, ScriptBuf, Sequence, Transaction, TxIn, TxOut, Txid, Witness};
use lightning_signer::chain::tracker::Headers;
use lightning_signer::channel::ChannelSlot;
use lightning_signer::node::Node;
use lightning_signer::persist::Persist;
use lightning_signer::policy::simple_validator::SimpleValidatorFactory;
use lightning_signer::policy::validator::ValidatorFactory;
use lightning_signer::txoo::proof::TxoProof;
use lightning_signer::util::clock::Clock;
use lightning_signer::util::status::Status;
use lightning_signer::util::test_utils::make_testnet_header;
use lightning_signer::util::velocity::{VelocityControl, VelocityControlIntervalType, VelocityControlSpec};
use lightning_signer::wallet::Wallet;
use proptest::prelude::*;
use serde::{Deserialize, Serialize};
use serde_json::{json, Value};
use std::collections::BTreeMap;
use std::sync::Arc;
use std::time::Duration;

#[derive(Clone, Debug, Serialize, Deserialize, PartialEq, Eq, Hash)]
pub enum CSel {
    Same,
    Add(HSel),
    Remove,
}

#[derive(Clone, Debug, Serialize, Deserialize, PartialEq, Eq, Hash)]
pub enum SecSel {
    Matching,
    OtherIndex,
    Random,
}

#[derive(Clone, Debug, Serialize, Deserialize, PartialEq, Eq, Hash)]
pub enum Op {
    HValidate { ch: u8, d: i8, c: CSel, sig: SigKind, phase1: bool },
    HRevoke { ch: u8, d: i8 },
    HActivate { ch: u8 },
    HAdvance { ch: u8, c: CSel },
    HSecret { ch: u8, d: i8 },
    HSignClose { ch: u8, d: i8 },
    CSign { ch: u8, d: i8, wrong_point: bool, c: CSel, phase1: bool },
    CRevoke { ch: u8, d: i8, sec: SecSel },
    CAdvance { ch: u8, c: CSel },
    MutualClose { ch: u8, kind: u8 },
    Approve { h: u8, amt: u8, keysend: bool },
    Fulfill { ch: u8, h: u8 },
    Onchain { kind: u8 },
    Allowlist { kind: u8 },
    AddBlock { fault: u8 },
    RemoveBlock { fault: u8 },
    NewChannel { dbid: u8 },
    SetupChannel { bad_delay: bool },
    Forget { ch: u8 },
    Heartbeat,
    AdvanceTime { secs: u32 },
    Restart,
    /// macro: approve a 50 000 sat invoice for hash h, validate a holder commitment offering
    /// 40 000 sat for it on one channel, sign a counterparty commitment offering 40 000 sat for it
    /// on the other channel, then try to revoke on the first: the revocation is refused by the
    /// payment re-validation (a refusal late in the request, after the state was looked up)
    CrossPay { h: u8, swap: bool },
    /// requests around the funding transaction of a third, outbound channel without push whose
    /// funding outpoint is an output of a real transaction spending two wallet coins.
    /// kind % 6: 0 validate its initial holder commitment, 5 activate it; 1 check_onchain_tx of the funding
    /// transaction; 2 sign it; 3 / 4 sign it with a wallet derivation path of the wrong length for
    /// the first / second input (a refusal inside the signing loop).  Signing is only requested
    /// after a check of the transaction was accepted (the documented calling order).
    Fund { kind: u8 },
    /// macro: Fund 0 (validate), Fund 5 (activate), Fund 1 (check), then one signing request
    /// (sign % 3: 0 good, 1 / 2 wrong derivation path for the first / second input)
    FundOpen { sign: u8 },
    /// SignInvoice for an invoice the node issues itself: payment hash h (4 hashes), amount
    /// variant amt; a second, different invoice for a hash that still has a live one is refused,
    /// and so is one beyond the invoice table limit
    Issue { h: u8, amt: u8 },
    /// macro: bookkeeping that has gone stale, then refusals: an issued invoice and an approved
    /// one for hash h; half a day later an issued invoice for another hash; another half day later
    /// (the first is now past expiry plus the day it is kept, the second is not; no heartbeat in
    /// between) a different invoice for the second hash (refused), and an approval
    Stale { h: u8 },
}

/// the primitive requests a macro op stands for (None: the op is primitive)
pub fn expand_macro(op: &Op) -> Option<Vec<Op>> {
    match op {
        Op::CrossPay { h, swap } => {
            let (a, b) = if *swap { (1u8, 0u8) } else { (0u8, 1u8) };
            let sel = HSel { offered: true, h: *h, amt: 3, cltv: 0 };
            Some(vec![
                Op::Approve { h: *h & 1, amt: 0, keysend: false },
                Op::HValidate { ch: a, d: 0, c: CSel::Add(sel.clone()), sig: SigKind::Valid, phase1: false },
                Op::CSign { ch: b, d: 0, wrong_point: false, c: CSel::Add(sel), phase1: false },
                Op::HRevoke { ch: a, d: 0 },
            ])
        }
        Op::Stale { h } => Some(vec![
            Op::Issue { h: *h, amt: 0 },
            Op::Approve { h: *h, amt: 0, keysend: false },
            Op::AdvanceTime { secs: 50_000 },
            Op::Issue { h: h ^ 1, amt: 0 },
            Op::AdvanceTime { secs: 50_000 },
            Op::Issue { h: h ^ 1, amt: 1 },
            Op::Approve { h: h ^ 1, amt: 2, keysend: true },
        ]),
        Op::FundOpen { sign } => Some(vec![Op::Fund { kind: 0 }, Op::Fund { kind: 5 }, Op::Fund { kind: 1 }, Op::Fund { kind: 2 + *sign % 3 }]),
        _ => None,
    }
}

fn d_strat() -> impl Strategy<Value = i8> {
    prop_oneof![7 => Just(0i8), 2 => Just(-1i8), 2 => Just(1i8), 1 => Just(-2i8), 1 => Just(2i8)]
}

fn hsel_strat() -> impl Strategy<Value = HSel> {
    (any::<bool>(), 0u8..4, 0u8..3, 0u8..3).prop_map(|(offered, h, amt, cltv)| HSel { offered, h, amt, cltv })
}

fn csel_strat() -> impl Strategy<Value = CSel> {
    prop_oneof![4 => Just(CSel::Same), 3 => hsel_strat().prop_map(CSel::Add), 1 => Just(CSel::Remove)]
}

fn sig_strat(valid: u32) -> impl Strategy<Value = SigKind> {
    prop_oneof![valid => Just(SigKind::Valid), 1 => Just(SigKind::CommitOverOtherContent), 1 => Just(SigKind::CommitWrongKey), 1 => Just(SigKind::HtlcWrongKey)]
}

/// `refusable` raises the share of requests that are likely to be refused (C10); C11 wants
/// mostly valid requests.
pub fn op_strat(refusable: bool) -> BoxedStrategy<Op> {
    let ch = || 0u8..3;
    let v = if refusable { 3 } else { 12 };
    let bad = if refusable { 0.35 } else { 0.08 };
    prop_oneof![
        6 => (ch(), d_strat(), csel_strat(), sig_strat(v), any::<bool>()).prop_map(|(ch, d, c, sig, phase1)| Op::HValidate { ch, d, c, sig, phase1 }),
        5 => (ch(), d_strat()).prop_map(|(ch, d)| Op::HRevoke { ch, d }),
        1 => ch().prop_map(|ch| Op::HActivate { ch }),
        8 => (ch(), csel_strat()).prop_map(|(ch, c)| Op::HAdvance { ch, c }),
        2 => (ch(), d_strat()).prop_map(|(ch, d)| Op::HSecret { ch, d }),
        1 => (ch(), d_strat()).prop_map(|(ch, d)| Op::HSignClose { ch, d }),
        6 => (ch(), d_strat(), prop::bool::weighted(bad), csel_strat(), any::<bool>()).prop_map(|(ch, d, wrong_point, c, phase1)| Op::CSign { ch, d, wrong_point, c, phase1 }),
        5 => (ch(), d_strat(), prop_oneof![6 => Just(SecSel::Matching), 2 => Just(SecSel::OtherIndex), 1 => Just(SecSel::Random)]).prop_map(|(ch, d, sec)| Op::CRevoke { ch, d, sec }),
        8 => (ch(), csel_strat()).prop_map(|(ch, c)| Op::CAdvance { ch, c }),
        1 => (ch(), 0u8..4).prop_map(|(ch, kind)| Op::MutualClose { ch, kind }),
        3 => (0u8..4, 0u8..3, any::<bool>()).prop_map(|(h, amt, keysend)| Op::Approve { h, amt, keysend }),
        1 => (ch(), 0u8..4).prop_map(|(ch, h)| Op::Fulfill { ch, h }),
        5 => prop_oneof![5 => Just(0u8), 1 => Just(1u8), 1 => Just(2u8), 1 => Just(3u8)].prop_map(|kind| Op::Onchain { kind }),
        4 => (0u8..10).prop_map(|kind| Op::Allowlist { kind }),
        4 => prop_oneof![6 => Just(0u8), 2 => Just(1u8), 2 => Just(2u8)].prop_map(|fault| Op::AddBlock { fault }),
        2 => prop_oneof![5 => Just(0u8), 2 => Just(1u8), 1 => Just(2u8)].prop_map(|fault| Op::RemoveBlock { fault }),
        2 => (0u8..6).prop_map(|dbid| Op::NewChannel { dbid }),
        2 => prop::bool::weighted(bad).prop_map(|bad_delay| Op::SetupChannel { bad_delay }),
        1 => ch().prop_map(|ch| Op::Forget { ch }),
        1 => Just(Op::Heartbeat),
        1 => prop_oneof![Just(5u32), Just(61u32), Just(4000u32), Just(100_000u32)].prop_map(|secs| Op::AdvanceTime { secs }),
        2 => (0u8..2, any::<bool>()).prop_map(|(h, swap)| Op::CrossPay { h, swap }),
        2 => (0u8..6).prop_map(|kind| Op::Fund { kind }),
        3 => (0u8..3).prop_map(|sign| Op::FundOpen { sign }),
        3 => (0u8..4, 0u8..2).prop_map(|(h, amt)| Op::Issue { h, amt }),
        1 => (0u8..4).prop_map(|h| Op::Stale { h }),
    ]
    .boxed()
}

const AMTS: [u64; 4] = [10_000, 25_000, 400_000, 40_000];
const CLTVS: [u32; 3] = [1_000, 1_010, 2_000];
fn mk_htlc(s: &HSel) -> Htlc {
    // disjoint hashes for the two directions (no routed payments through one channel)
    Htlc { h: if s.offered { s.h & 1 } else { (s.h & 1) | 2 }, sat: AMTS[if s.amt == 3 { 3 } else { s.amt as usize % 3 }], cltv: if s.offered { CLTVS[s.cltv as usize % 3] } else { 1100 + CLTVS[s.cltv as usize % 3] } }
}

pub const VALUE: u64 = 5_000_000;
pub const BASE_CP: u64 = 2_000_000;

#[derive(Default, Clone)]
pub struct ChState {
    pub holder_last: Option<Content>,
    pub holder_pending: Option<(u64, Content)>,
    pub cp_last: Option<Content>,
    pub cp_signed_points: BTreeMap<u64, bool>,
}

pub struct BlockRec {
    pub header: BlockHeader,
    pub proof: TxoProof,
    pub prev: Headers,
}

/// the third channel and its funding transaction (see Op::Fund)
pub struct FundChan {
    pub chan: Chan,
    pub tx: Transaction,
    pub prev_outs: Vec<TxOut>,
    pub ipaths: Vec<DerivationPath>,
    pub opaths: Vec<DerivationPath>,
    pub checked: bool,
}

pub struct Machine {
    pub fund: FundChan,
    pub w: World,
    pub st: Vec<ChState>,
    pub blocks: Vec<BlockRec>,
    pub next_dbid: u64,
    pub stub_pending: Option<usize>,
    pub dead: bool,
    pub onchain_ctr: u32,
    /// wire blocks: the signer was built by `HandlerBuilder` (as vlsd builds it) and well-formed
    /// AddBlock / RemoveBlock requests go to its root handler as protocol messages, so that the
    /// handler's own persistence of the tracker is what a restart finds (plain memory store only)
    pub pw: Option<ProtoWorld>,
}

pub struct StepRes {
    pub kind: &'static str,
    /// "ok" / "err" / "panic" / "skip"
    pub tag: &'static str,
    pub err: String,
    /// cloud mode: mutations reported by prepare() at the end of the request envelope
    pub muts: Option<usize>,
}

pub fn policy_for_union() -> lightning_signer::policy::simple_validator::SimplePolicy {
    let mut p = lightning_signer::policy::simple_validator::make_default_simple_policy(Network::Testnet);
    p.global_velocity_control = VelocityControlSpec { limit_msat: 1_000_000_000, interval_type: VelocityControlIntervalType::Hourly };
    // two ordinary on-chain approvals (150 sat of fees each) fit, the third is refused by the
    // fee velocity limit: a refusal late in check_onchain_tx
    p.fee_velocity_control = VelocityControlSpec { limit_msat: 400_000, interval_type: VelocityControlIntervalType::Daily };
    // a small invoice table: "too many invoices" refusals are reachable (three of the four hashes)
    p.max_invoices = 3;
    p
}

impl Machine {
    pub fn new(cloud: bool, anchors: bool) -> Machine {
        Self::new_mode(cloud, false, anchors)
    }

    /// `backup`: the node persists through BackupPersister(main, backup) (see World::new_backup)
    pub fn new_mode(cloud: bool, backup: bool, anchors: bool) -> Machine {
        Self::new_mode_wire(cloud, backup, anchors, false)
    }

    /// `wire_blocks` (plain memory store only): see `Machine::pw`
    pub fn new_mode_wire(cloud: bool, backup: bool, anchors: bool, wire_blocks: bool) -> Machine {
        Self::new_mode_store(cloud, backup, anchors, wire_blocks, false)
    }

    /// `redb`: the node persists through KVVPersister<RedbKVVStore> (see World::new_redb)
    pub fn new_mode_store(cloud: bool, backup: bool, anchors: bool, wire_blocks: bool, redb: bool) -> Machine {
        let mut cfg = WorldCfg::default_testnet();
        cfg.policy = policy_for_union();
        let vf: Arc<dyn ValidatorFactory> = Arc::new(SimpleValidatorFactory::new_with_policy(cfg.policy.clone()));
        let pw = if wire_blocks && !cloud && !backup && !redb { Some(ProtoWorld::new(cfg.clone(), 6, Negotiation::SignerCap)) } else { None };
        let mut w = if let Some(pw) = pw.as_ref() {
            World::from_proto(pw)
        } else if redb {
            World::new_redb(cfg, vf)
        } else if backup {
            World::new_backup(cfg, vf)
        } else if cloud {
            World::new_cloud(cfg, vf)
        } else {
            World::new_with_factory(cfg, vf)
        };
        // the signer's clock is not on a whole second (keysend records carry sub-second timestamps)
        let t0 = w.clock.now();
        w.clock.set(Duration::new(t0.as_secs(), 900_000_000));
        let mut st = vec![];
        for i in 0..2u64 {
            let mut spec = ChanSpec::basic(i + 1);
            spec.anchors = anchors && i == 0;
            spec.value_sat = VALUE;
            spec.push_msat = BASE_CP * 1000;
            spec.outbound = i == 0;
            if i == 1 {
                // the second channel gets a permanent id different from its initial one (LDK-style)
                let ci = match w.new_stub(&spec) {
                    Out::Ok(ci) => ci,
                    o => panic!("new_stub failed: {}", o.err_msg()),
                };
                w.chans[ci].perm_id = Some(lightning_signer::channel::ChannelId::new(b"union/permanent/1"));
                match w.setup_chan(ci) {
                    Out::Ok(()) => {}
                    o => panic!("setup_chan failed: {}", o.err_msg()),
                }
            } else {
                w.open(&spec);
            }
            st.push(ChState::default());
        }
        // allowlist and approvals used by several requests
        let node = w.node.clone();
        let secp = w.secp.clone();
        let allow = Address::p2wpkh(&CompressedPublicKey(PublicKey::from_secret_key(&secp, &SecretKey::from_slice(&[9u8; 32]).unwrap())), Network::Testnet);
        let _ = w.txn(|| node.add_allowlist(&[format!("address:{}", allow)]));
        let fund = Self::open_fund_chan(&mut w);
        Machine { fund, w, st, blocks: vec![], next_dbid: 3, stub_pending: None, dead: false, onchain_ctr: 0, pw }
    }

    /// A ready outbound channel (no push) whose funding outpoint is output 0 of a transaction
    /// spending two wallet coins; it is kept outside `w.chans` so that the generic channel
    /// requests do not address it.
    fn open_fund_chan(w: &mut World) -> FundChan {
        let mut spec = ChanSpec::basic(40);
        spec.value_sat = VALUE;
        spec.push_msat = 0;
        spec.outbound = true;
        let ci = match w.new_stub(&spec) {
            Out::Ok(ci) => ci,
            o => panic!("new_stub failed: {}", o.err_msg()),
        };
        let (fee, change) = (100u64, 50_000u64);
        let total_in = VALUE + change + fee;
        let (mut ipaths, mut prev_outs, mut inputs) = (vec![], vec![], vec![]);
        for i in 0..2u32 {
            let path: DerivationPath = vec![ChildNumber::from_normal_idx(30 + i).unwrap()].into();
            let spk = w.node.get_native_address(&path).expect("address").script_pubkey();
            let val = if i == 0 { total_in / 2 } else { total_in - total_in / 2 };
            let mut txid = [0x0f; 32];
            txid[0] = i as u8;
            inputs.push(TxIn { previous_output: OutPoint { txid: Txid::from_byte_array(txid), vout: 0 }, script_sig: ScriptBuf::new(), sequence: Sequence::MAX, witness: Witness::new() });
            prev_outs.push(TxOut { value: Amount::from_sat(val), script_pubkey: spk });
            ipaths.push(path);
        }
        let change_path: DerivationPath = vec![ChildNumber::from_normal_idx(32).unwrap()].into();
        let change_spk = w.node.get_native_address(&change_path).expect("address").script_pubkey();
        let funding_spk = w.chans[ci].funding_redeemscript().to_p2wsh();
        let tx = Transaction {
            version: Version::TWO,
            lock_time: LockTime::ZERO,
            input: inputs,
            output: vec![TxOut { value: Amount::from_sat(VALUE), script_pubkey: funding_spk }, TxOut { value: Amount::from_sat(change), script_pubkey: change_spk }],
        };
        w.chans[ci].setup.funding_outpoint = OutPoint { txid: tx.compute_txid(), vout: 0 };
        match w.setup_chan(ci) {
            Out::Ok(()) => {}
            o => panic!("setup_chan failed: {}", o.err_msg()),
        }
        assert_eq!(ci + 1, w.chans.len());
        let chan = w.chans.pop().unwrap();
        FundChan { chan, tx, prev_outs, ipaths, opaths: vec![DerivationPath::master(), change_path], checked: false }
    }

    /// Make the tracker's window of remembered headers full (MAX_REORG_SIZE entries), as it is on
    /// any signer that has followed the chain for a day: bookkeeping that only happens on a full
    /// window (dropping the oldest header) is then reachable.  The filler entries sit behind the
    /// real ones and are never consulted (the machine only removes blocks it added itself).
    pub fn fill_header_window(&mut self) {
        let node = self.w.node.clone();
        let _ = self.w.txn(|| {
            let mut t = node.get_tracker();
            let filler = t.tip.clone();
            while t.headers.len() < 100 {
                t.headers.push_back(filler.clone());
            }
            node.get_persister().update_tracker(&node.get_id(), &t).map_err(|_| Status::internal("persist"))
        });
    }

    fn nchan(&self) -> usize {
        self.st.len()
    }

    fn counters(&self, ci: usize) -> (u64, u64, u64) {
        self.w
            .node
            .with_channel(&self.w.chans[ci].id0, |c| Ok((c.enforcement_state.next_holder_commit_num, c.enforcement_state.next_counterparty_commit_num, c.enforcement_state.next_counterparty_revoke_num)))
            .unwrap_or((0, 0, 0))
    }

    fn resolve(&self, ci: usize, holder_side: bool, n: u64, c: &CSel) -> Content {
        let anchors = self.w.chans[ci].spec.anchors;
        let s = &self.st[ci];
        let base = if holder_side { s.holder_last.clone() } else { s.cp_last.clone() }.or(s.holder_last.clone()).or(s.cp_last.clone()).unwrap_or_else(|| finish_content(anchors, VALUE, 1000, BASE_CP, vec![], vec![]));
        let mut r = match c {
            CSel::Same => {
                if holder_side {
                    if let Some((pn, pc)) = &s.holder_pending {
                        if *pn == n {
                            return pc.clone();
                        }
                    }
                }
                base
            }
            CSel::Add(h) => {
                let (mut o, mut rc) = (base.offered.clone(), base.received.clone());
                if o.len() + rc.len() < 4 {
                    if h.offered { o.push(mk_htlc(h)) } else { rc.push(mk_htlc(h)) }
                }
                let to_cp = BASE_CP.saturating_sub(rc.iter().map(|x| x.sat).sum());
                finish_content(anchors, VALUE, base.feerate, to_cp, o, rc)
            }
            CSel::Remove => {
                let (mut o, mut rc) = (base.offered.clone(), base.received.clone());
                if !o.is_empty() { o.remove(0); } else if !rc.is_empty() { rc.remove(0); }
                let to_cp = BASE_CP.saturating_sub(rc.iter().map(|x| x.sat).sum());
                finish_content(anchors, VALUE, base.feerate, to_cp, o, rc)
            }
        };
        if n == 0 {
            r = finish_content(anchors, VALUE, r.feerate, BASE_CP, vec![], vec![]);
        }
        r
    }

    /// Run one request inside the persist envelope.
    fn req<T>(&mut self, kind: &'static str, f: impl FnOnce() -> Result<T, Status>) -> (StepRes, Option<T>) {
        let (out, muts) = self.w.txn(|| call(f));
        let tag = out.tag();
        let err = if out.is_ok() { String::new() } else { short_err(&out.err_msg()) };
        if out.is_panic() {
            self.dead = true;
        }
        (StepRes { kind, tag, err, muts: muts.map(|m| m.len()) }, out.ok())
    }

    /// One block request to the root handler (wire blocks).  An AddBlock answered with the orphan
    /// error code counts as refused.
    fn wire_block_req(&mut self, kind: &'static str, msg: vls_protocol::msgs::Message) -> (StepRes, Option<()>) {
        let pw = self.pw.as_mut().expect("wire blocks");
        let out = match pw.request(To::Root, msg) {
            Out::Ok(rep) => match rep.as_any().downcast_ref::<vls_protocol::msgs::SignerError>() {
                Some(e) => Out::Err(Status::invalid_argument(format!("signer error reply, code {}", e.code))),
                None => Out::Ok(()),
            },
            Out::Err(e) => Out::Err(e),
            Out::Panic(p) => Out::Panic(p),
        };
        let tag = out.tag();
        let err = if out.is_ok() { String::new() } else { short_err(&out.err_msg()) };
        if out.is_panic() {
            self.dead = true;
        }
        (StepRes { kind, tag, err, muts: None }, out.ok())
    }

    fn skip(kind: &'static str) -> StepRes {
        StepRes { kind, tag: "skip", err: String::new(), muts: None }
    }

    pub fn step(&mut self, op: &Op) -> Vec<StepRes> {
        let secp = self.w.secp.clone();
        let nchan = self.nchan();
        let node = self.w.node.clone();
        if let Some(prims) = expand_macro(op) {
            let mut v = vec![];
            for p in prims.iter() {
                v.extend(self.step(p));
                if self.dead {
                    break;
                }
            }
            return v;
        }
        match op {
            Op::HAdvance { ch, c } => {
                let ci = *ch as usize % nchan;
                let (next, _, _) = self.counters(ci);
                let mut v = self.step(&Op::HValidate { ch: *ch, d: 0, c: c.clone(), sig: SigKind::Valid, phase1: false });
                if self.dead {
                    return v;
                }
                v.extend(if next == 0 { self.step(&Op::HActivate { ch: *ch }) } else { self.step(&Op::HRevoke { ch: *ch, d: 0 }) });
                v
            }
            Op::CAdvance { ch, c } => {
                let mut v = self.step(&Op::CSign { ch: *ch, d: 0, wrong_point: false, c: c.clone(), phase1: false });
                if self.dead {
                    return v;
                }
                v.extend(self.step(&Op::CRevoke { ch: *ch, d: 0, sec: SecSel::Matching }));
                v
            }
            Op::HValidate { ch, d, c, sig, phase1 } => {
                let ci = *ch as usize % nchan;
                let (next, _, _) = self.counters(ci);
                let n = next as i64 + *d as i64;
                if n < 0 {
                    return vec![Self::skip("h-validate")];
                }
                let n = n as u64;
                let content = self.resolve(ci, true, n, c);
                let chan = &self.w.chans[ci];
                let signed = chan.cp_sign_holder(&secp, n, &content, *sig);
                let (o, r) = (to_info2(&content.offered), to_info2(&content.received));
                let id0 = chan.id0.clone();
                let tx = signed.tx.trust().built_transaction().transaction.clone();
                let ws = if *phase1 { witscripts(chan, &secp, &signed.tx, true) } else { vec![] };
                let (cs, hs) = (signed.commit_sig, signed.htlc_sigs.clone());
                let (p1, fr, th, tc) = (*phase1, content.feerate, content.to_holder, content.to_cp);
                let (res, ok) = self.req("h-validate", move || {
                    node.with_channel(&id0, |chn| {
                        if p1 {
                            chn.validate_holder_commitment_tx(&tx, &ws, n, fr, o.clone(), r.clone(), &cs, &hs)
                        } else {
                            chn.validate_holder_commitment_tx_phase2(n, fr, th, tc, o.clone(), r.clone(), &cs, &hs)
                        }
                    })
                });
                if ok.is_some() && n == next {
                    self.st[ci].holder_pending = Some((n, content));
                }
                vec![res]
            }
            Op::HRevoke { ch, d } => {
                let ci = *ch as usize % nchan;
                let (next, _, _) = self.counters(ci);
                let n = next as i64 + *d as i64;
                if n < 0 {
                    return vec![Self::skip("h-revoke")];
                }
                let n = n as u64;
                let id0 = self.w.chans[ci].id0.clone();
                let (res, ok) = self.req("h-revoke", move || node.with_channel(&id0, |c| c.revoke_previous_holder_commitment(n)));
                if ok.is_some() && n == next && self.counters(ci).0 == next + 1 {
                    if let Some((pn, pc)) = self.st[ci].holder_pending.take() {
                        if pn == n {
                            self.st[ci].holder_last = Some(pc);
                        }
                    }
                }
                vec![res]
            }
            Op::HActivate { ch } => {
                let ci = *ch as usize % nchan;
                let id0 = self.w.chans[ci].id0.clone();
                let (res, ok) = self.req("h-activate", move || node.with_channel(&id0, |c| c.activate_initial_commitment()));
                if ok.is_some() {
                    if let Some((0, pc)) = self.st[ci].holder_pending.take() {
                        self.st[ci].holder_last = Some(pc);
                    }
                }
                vec![res]
            }
            Op::HSecret { ch, d } => {
                let ci = *ch as usize % nchan;
                let (next, _, _) = self.counters(ci);
                let n = next as i64 + *d as i64 - 1;
                if n < 0 {
                    return vec![Self::skip("h-secret")];
                }
                let id0 = self.w.chans[ci].id0.clone();
                let (res, _) = self.req("h-secret", move || {
                    use lightning_signer::channel::ChannelBase;
                    node.with_channel(&id0, |c| c.get_per_commitment_secret(n as u64))
                });
                vec![res]
            }
            Op::HSignClose { ch, d } => {
                let ci = *ch as usize % nchan;
                let (next, _, _) = self.counters(ci);
                let n = next as i64 + *d as i64 - 1;
                if n < 0 {
                    return vec![Self::skip("h-sign-close")];
                }
                let id0 = self.w.chans[ci].id0.clone();
                let (res, _) = self.req("h-sign-close", move || node.with_channel(&id0, |c| c.sign_holder_commitment_tx_phase2(n as u64)));
                vec![res]
            }
            Op::CSign { ch, d, wrong_point, c, phase1 } => {
                let ci = *ch as usize % nchan;
                let (_, nc, _) = self.counters(ci);
                let n = nc as i64 + *d as i64;
                if n < 0 {
                    return vec![Self::skip("c-sign")];
                }
                let n = n as u64;
                let content = self.resolve(ci, false, n, c);
                let chan = &self.w.chans[ci];
                let point = chan.cp.point(&secp, if *wrong_point { n + 9 } else { n });
                let (cpo, cpr) = (to_info2(&content.received), to_info2(&content.offered));
                let id0 = chan.id0.clone();
                let reftx = chan.ref_cp_commitment(&secp, n, &point, &content);
                let tx = reftx.trust().built_transaction().transaction.clone();
                let ws = if *phase1 { witscripts(chan, &secp, &reftx, false) } else { vec![] };
                let (p1, fr, th, tc) = (*phase1, content.feerate, content.to_holder, content.to_cp);
                let (res, ok) = self.req("c-sign", move || {
                    node.with_channel(&id0, |chn| {
                        if p1 {
                            chn.sign_counterparty_commitment_tx(&tx, &ws, &point, n, fr, cpo.clone(), cpr.clone()).map(|_| ())
                        } else {
                            chn.sign_counterparty_commitment_tx_phase2(&point, n, fr, th, tc, cpo.clone(), cpr.clone()).map(|_| ())
                        }
                    })
                });
                if ok.is_some() {
                    self.st[ci].cp_last = Some(content);
                    self.st[ci].cp_signed_points.insert(n, *wrong_point);
                }
                vec![res]
            }
            Op::CRevoke { ch, d, sec } => {
                let ci = *ch as usize % nchan;
                let (_, _, nr) = self.counters(ci);
                let k = nr as i64 + *d as i64;
                if k < 0 {
                    return vec![Self::skip("c-revoke")];
                }
                let k = k as u64;
                let chan = &self.w.chans[ci];
                let wrong = self.st[ci].cp_signed_points.get(&k).copied().unwrap_or(false);
                let idx = if wrong { k + 9 } else { k };
                let s = match sec {
                    SecSel::Matching => chan.cp.secret(idx),
                    SecSel::OtherIndex => chan.cp.secret(idx + 1),
                    SecSel::Random => SecretKey::from_slice(&[0x5c; 32]).unwrap(),
                };
                let id0 = chan.id0.clone();
                let (res, _) = self.req("c-revoke", move || node.with_channel(&id0, |c| c.validate_counterparty_revocation(k, &s)));
                vec![res]
            }
            Op::MutualClose { ch, kind } => {
                let ci = *ch as usize % nchan;
                let chan = &self.w.chans[ci];
                let id0 = chan.id0.clone();
                let outbound = chan.spec.outbound;
                let s = &self.st[ci];
                let to_cp_base = s.cp_last.as_ref().map(|c| c.to_cp).unwrap_or(BASE_CP);
                let path: DerivationPath = vec![ChildNumber::from_normal_idx(4).unwrap()].into();
                let hscript = self.w.node.get_native_address(&path).map(|a| a.script_pubkey()).unwrap_or_default();
                let foreign = Address::p2wpkh(&CompressedPublicKey(PublicKey::from_secret_key(&secp, &SecretKey::from_slice(&[8u8; 32]).unwrap())), Network::Testnet).script_pubkey();
                let fee = 1000u64;
                let (to_h, to_c, hs) = match kind % 4 {
                    0 => (VALUE - to_cp_base - fee, to_cp_base, hscript.clone()),
                    1 => (VALUE - to_cp_base - fee, to_cp_base, foreign.clone()),
                    2 => (VALUE - to_cp_base - 3_000_000, to_cp_base, hscript.clone()),
                    _ => {
                        if outbound { (VALUE - to_cp_base - fee - 50_000, to_cp_base + 50_000, hscript.clone()) } else { (VALUE - to_cp_base - fee - 50_000, to_cp_base + 50_000 - fee, hscript.clone()) }
                    }
                };
                let cs = foreign;
                let (res, _) = self.req("mutual-close", move || node.with_channel(&id0, |c| c.sign_mutual_close_tx_phase2(to_h, to_c, &Some(hs.clone()), &Some(cs.clone()), &path)));
                vec![res]
            }
            Op::Approve { h, amt, keysend } => {
                let a = [50_000_000u64, 100_000_000, 2_000_000_000][*amt as usize % 3];
                let payee = PublicKey::from_secret_key(&secp, &SecretKey::from_slice(&[5u8; 32]).unwrap());
                let ph = phash(*h);
                let now = self.w.clock.now();
                let (ks, hh) = (*keysend, *h);
                let (mut res, ok) = self.req("approve", move || {
                    if ks {
                        node.add_keysend(payee, ph, a)
                    } else {
                        node.add_invoice(crate::props::c06::make_invoice_pub(hh, a, Duration::from_secs(now.as_secs())))
                    }
                });
                if ok == Some(false) {
                    res.tag = "declined";
                }
                vec![res]
            }
            Op::Fulfill { ch, h } => {
                let ci = *ch as usize % nchan;
                let id0 = self.w.chans[ci].id0.clone();
                let pre = preimage(*h);
                let (res, _) = self.req("fulfill", move || node.with_channel(&id0, |c| { c.htlcs_fulfilled(vec![pre]); Ok(()) }));
                vec![res]
            }
            Op::Onchain { kind } => {
                self.onchain_ctr += 1;
                let path: DerivationPath = vec![ChildNumber::from_normal_idx(1).unwrap()].into();
                let spk = self.w.node.get_native_address(&path).unwrap().script_pubkey();
                let foreign = ScriptBuf::new_p2wsh(&bitcoin::WScriptHash::hash(&[0xaa]));
                let in_val = 1_000_000u64;
                let (version, out_val, out_spk, opath) = match kind % 4 {
                    0 => (2, in_val - 150, spk.clone(), path.clone()),
                    1 => (2, in_val - 400_000, spk.clone(), path.clone()),
                    2 => (2, in_val - 150, foreign, DerivationPath::master()),
                    _ => (1, in_val - 150, spk.clone(), path.clone()),
                };
                let mut txid = [0x0c; 32];
                txid[0..4].copy_from_slice(&self.onchain_ctr.to_le_bytes());
                let tx = Transaction {
                    version: Version(version),
                    lock_time: LockTime::ZERO,
                    input: vec![TxIn { previous_output: OutPoint { txid: Txid::from_byte_array(txid), vout: 0 }, script_sig: ScriptBuf::new(), sequence: Sequence::MAX, witness: Witness::new() }],
                    output: vec![TxOut { value: Amount::from_sat(out_val), script_pubkey: out_spk }],
                };
                let prev = vec![TxOut { value: Amount::from_sat(in_val), script_pubkey: spk }];
                let (res, _) = self.req("onchain", move || node.check_onchain_tx(&tx, &[true], &prev, &[None], &[opath]).map_err(|e| e.into()));
                vec![res]
            }
            Op::Fund { kind } => {
                let id0 = self.fund.chan.id0.clone();
                match kind % 6 {
                    5 => {
                        let (res, _) = self.req("fund-activate", move || node.with_channel(&id0, |ch| ch.activate_initial_commitment().map(|_| ())));
                        vec![res]
                    }
                    0 => {
                        let c0 = crate::chainpool::mk_content(false, true, VALUE, 1000, 0, vec![], vec![]);
                        let signed = self.fund.chan.cp_sign_holder(&secp, 0, &c0, SigKind::Valid);
                        let (res, _) = self.req("fund-validate", move || {
                            node.with_channel(&id0, |ch| ch.validate_holder_commitment_tx_phase2(0, c0.feerate, c0.to_holder, c0.to_cp, vec![], vec![], &signed.commit_sig, &signed.htlc_sigs).map(|_| ()))
                        });
                        vec![res]
                    }
                    1 => {
                        let (tx, prev, opaths) = (self.fund.tx.clone(), self.fund.prev_outs.clone(), self.fund.opaths.clone());
                        let (res, ok) = self.req("fund-check", move || node.check_onchain_tx(&tx, &[true, true], &prev, &[None, None], &opaths).map_err(|e| e.into()));
                        if ok.is_some() {
                            self.fund.checked = true;
                        }
                        vec![res]
                    }
                    k => {
                        if !self.fund.checked {
                            return vec![Self::skip("fund-sign")];
                        }
                        let (tx, prev, mut ipaths) = (self.fund.tx.clone(), self.fund.prev_outs.clone(), self.fund.ipaths.clone());
                        if k == 3 || k == 4 {
                            ipaths[k as usize - 3] = vec![ChildNumber::from_normal_idx(30).unwrap(), ChildNumber::from_normal_idx(1).unwrap()].into();
                        }
                        let (res, _) = self.req("fund-sign", move || node.unchecked_sign_onchain_tx(&tx, &ipaths, &prev, vec![None, None]).map(|_| ()));
                        vec![res]
                    }
                }
            }
            Op::Allowlist { kind } => {
                let a1 = Address::p2wpkh(&CompressedPublicKey(PublicKey::from_secret_key(&secp, &SecretKey::from_slice(&[0x21; 32]).unwrap())), Network::Testnet);
                let a2 = Address::p2wpkh(&CompressedPublicKey(PublicKey::from_secret_key(&secp, &SecretKey::from_slice(&[0x22; 32]).unwrap())), Network::Testnet);
                let k = *kind % 10;
                let (res, _) = self.req("allowlist", move || match k {
                    5 => node.add_allowlist(&[format!("address:{}", a1), format!("address:{}", a2)]),
                    // multi-entry removals: whether an entry is present depends on the history
                    6 => node.remove_allowlist(&[format!("address:{}", a1), format!("address:{}", a2)]),
                    7 => node.remove_allowlist(&[format!("address:{}", a2), format!("address:{}", a1)]),
                    8 => node.set_allowlist(&[format!("address:{}", a1)]),
                    9 => node.add_allowlist(&[format!("address:{}", a2)]),
                    0 => node.add_allowlist(&[format!("address:{}", a1)]),
                    1 => node.add_allowlist(&[format!("address:{}", a2), "garbage-not-an-address".to_string()]),
                    2 => node.remove_allowlist(&[format!("address:{}", a1)]),
                    3 => node.set_allowlist(&[format!("address:{}", a2), "xpub:notanxpub".to_string()]),
                    _ => node.remove_allowlist(&["address:bogus".to_string()]),
                });
                vec![res]
            }
            Op::AddBlock { fault } => {
                let (tip, height) = {
                    let t = self.w.node.get_tracker();
                    (t.tip().clone(), t.height())
                };
                let (mut header, proof) = match fault % 3 {
                    2 => make_testnet_header(&tip, height + 3), // proof for another height
                    _ => make_testnet_header(&tip, height),
                };
                if fault % 3 == 1 {
                    header.prev_blockhash = bitcoin::BlockHash::all_zeros();
                }
                let (proof2, prev) = (proof.clone(), tip.clone());
                // wire blocks: what a follower can send without ending the signer (the handler
                // panics on a refused block other than an orphan)
                let (res, ok) = if self.pw.is_some() && fault % 3 != 2 {
                    use vls_protocol::msgs;
                    self.wire_block_req(
                        "add-block",
                        msgs::Message::AddBlock(msgs::AddBlock {
                            header: vls_protocol::serde_bolt::Octets(bitcoin::consensus::serialize(&header)),
                            unspent_proof: Some(msgs::DebugTxoProof(proof)),
                        }),
                    )
                } else {
                    self.req("add-block", move || {
                    let mut tracker = node.get_tracker();
                    tracker.add_block(header, proof).map_err(|e| Status::invalid_argument(format!("add_block: {:?}", e)))?;
                    node.get_persister().update_tracker(&node.get_id(), &tracker).map_err(|e| Status::internal(format!("{:?}", e)))?;
                    Ok(())
                })
                };
                if ok.is_some() {
                    self.blocks.push(BlockRec { header, proof: proof2, prev });
                }
                vec![res]
            }
            Op::RemoveBlock { fault } => {
                let Some(b) = self.blocks.last() else { return vec![Self::skip("remove-block")] };
                let mut prev = Headers(b.prev.0, b.prev.1);
                let mut proof = b.proof.clone();
                match fault % 3 {
                    1 => prev.0.nonce = prev.0.nonce.wrapping_add(1),
                    2 => {
                        // proof of another block
                        let (_, p) = make_testnet_header(&b.prev, self.w.node.get_tracker().height() + 7);
                        proof = p;
                    }
                    _ => {}
                }
                let (res, ok) = if self.pw.is_some() && fault % 3 == 0 {
                    use vls_protocol::msgs;
                    self.wire_block_req(
                        "remove-block",
                        msgs::Message::RemoveBlock(msgs::RemoveBlock {
                            unspent_proof: Some(vls_protocol::serde_bolt::LargeOctets(bitcoin::consensus::serialize(&proof))),
                            prev_block_header: prev.0,
                            prev_filter_header: prev.1,
                        }),
                    )
                } else {
                    self.req("remove-block", move || {
                    let mut tracker = node.get_tracker();
                    tracker.remove_block(proof, prev).map_err(|e| Status::invalid_argument(format!("remove_block: {:?}", e)))?;
                    node.get_persister().update_tracker(&node.get_id(), &tracker).map_err(|e| Status::internal(format!("{:?}", e)))?;
                    Ok(())
                })
                };
                if ok.is_some() {
                    self.blocks.pop();
                }
                vec![res]
            }
            Op::NewChannel { dbid } => {
                // small alphabet so that reuse below the high-water mark is attempted
                let d = if *dbid < 3 { self.next_dbid + *dbid as u64 } else { (*dbid as u64).saturating_sub(2) };
                let mut spec = ChanSpec::basic(d);
                spec.value_sat = VALUE;
                spec.push_msat = BASE_CP * 1000;
                let before = self.w.chans.len();
                let r = self.w.new_stub(&spec);
                let tag = r.tag();
                if r.is_panic() {
                    self.dead = true;
                }
                if let Out::Ok(i) = r {
                    if i >= before {
                        self.stub_pending = Some(i);
                        self.next_dbid = self.next_dbid.max(d + 1);
                    }
                }
                vec![StepRes { kind: "new-channel", tag, err: String::new(), muts: None }]
            }
            Op::SetupChannel { bad_delay } => {
                let Some(i) = self.stub_pending else { return vec![Self::skip("setup-channel")] };
                if *bad_delay {
                    self.w.chans[i].setup.holder_selected_contest_delay = 3000;
                }
                let r = self.w.setup_chan(i);
                let tag = r.tag();
                let err = short_err(&r.err_msg());
                if r.is_panic() {
                    self.dead = true;
                }
                if r.is_ok() {
                    self.stub_pending = None;
                    // keep the channel index space of `st` aligned with `w.chans` for ready channels
                    while self.st.len() < self.w.chans.len() {
                        self.st.push(ChState::default());
                    }
                } else {
                    self.w.chans[i].setup.holder_selected_contest_delay = 6;
                }
                vec![StepRes { kind: "setup-channel", tag, err, muts: None }]
            }
            Op::Forget { ch } => {
                let ci = *ch as usize % nchan;
                let id0 = self.w.chans[ci].id0.clone();
                let (res, _) = self.req("forget", move || node.forget_channel(&id0));
                vec![res]
            }
            Op::Heartbeat => {
                let (res, _) = self.req("heartbeat", move || Ok(node.get_heartbeat()));
                vec![res]
            }
            Op::Issue { h, amt } => {
                use lightning_signer::bitcoin::hashes::sha256::Hash as Sha256;
                use lightning_signer::lightning::types::payment::PaymentSecret;
                use lightning_signer::lightning_invoice::{Currency, InvoiceBuilder};
                let raw = InvoiceBuilder::new(Currency::BitcoinTestnet)
                    .description(format!("union issued {}", amt))
                    .payment_hash(Sha256::from_byte_array(phash(8 + (*h & 3)).0))
                    .payment_secret(PaymentSecret([*h & 3; 32]))
                    .duration_since_epoch(Duration::from_secs(self.w.clock.now().as_secs()))
                    .min_final_cltv_expiry_delta(144)
                    .amount_milli_satoshis(20_000_000 + *amt as u64 * 1_000_000)
                    .build_raw()
                    .expect("raw invoice");
                let (res, _) = self.req("issue-invoice", move || node.sign_bolt11_invoice(raw).map(|_| ()));
                vec![res]
            }
            Op::AdvanceTime { secs } => {
                let t = self.w.clock.now() + Duration::from_secs(*secs as u64);
                self.w.clock.set(t);
                vec![Self::skip("advance-time")]
            }
            Op::CrossPay { .. } | Op::FundOpen { .. } | Op::Stale { .. } => unreachable!("macro op expanded above"),
            Op::Restart => {
                if self.w.backup.is_some() {
                    // a restart would drop the composite persister: not modelled in backup mode
                    return vec![Self::skip("restart")];
                }
                let r = self.w.restart();
                if !r.is_ok() {
                    self.dead = true;
                }
                vec![StepRes { kind: "restart", tag: r.tag(), err: short_err(&r.err_msg()), muts: None }]
            }
        }
    }
}

// ---------------------------------------------------------------------------------------------
// Observation

/// velocity control as an absolute-time bucket map: rotation caused by the clock alone is not a
/// change, an added amount is
fn velocity_value(v: &VelocityControl) -> Value {
    let mut m: BTreeMap<u64, u64> = BTreeMap::new();
    for (i, b) in v.buckets.iter().enumerate() {
        if *b != 0 {
            m.insert(v.start_sec.saturating_sub(i as u64 * v.bucket_interval as u64), *b);
        }
    }
    json!({"limit": v.limit, "interval": v.bucket_interval, "n": v.buckets.len(), "amounts": m})
}

fn hexs(b: &[u8]) -> String {
    hex::encode(b)
}

/// Everything the properties C10 and C11 list, as an ordered JSON value.
pub struct Snap {
    pub channels: BTreeMap<String, Value>,
    pub node: Value,
    pub tracker: Value,
}

pub fn observe(node: &Arc<Node>) -> Snap {
    let mut channels = BTreeMap::new();
    {
        let chans = node.get_channels();
        for (id, slot) in chans.iter() {
            let g = slot.lock().unwrap();
            let v = match &*g {
                ChannelSlot::Stub(s) => json!({"stub": true, "id0": hexs(s.id0.as_slice())}),
                ChannelSlot::Ready(c) => json!({
                    "id0": hexs(c.id0.as_slice()),
                    "id": c.id.as_ref().map(|i| hexs(i.as_slice())),
                    "setup": serde_json::to_value(&c.setup).unwrap(),
                    "estate": serde_json::to_value(&c.enforcement_state).unwrap(),
                }),
            };
            channels.insert(hexs(id.as_slice()), v);
        }
    }
    let node_v = {
        let st = node.get_state();
        let mut inv: BTreeMap<String, Value> = BTreeMap::new();
        for (h, p) in st.invoices.iter() {
            inv.insert(hexs(&h.0), serde_json::to_value(p).unwrap());
        }
        let mut issued: BTreeMap<String, Value> = BTreeMap::new();
        for (h, p) in st.issued_invoices.iter() {
            issued.insert(hexs(&h.0), serde_json::to_value(p).unwrap());
        }
        let mut pays: BTreeMap<String, Value> = BTreeMap::new();
        for (h, p) in st.payments.iter() {
            let inc: BTreeMap<String, u64> = p.incoming.iter().map(|(k, v)| (hexs(k.as_slice()), *v)).collect();
            let out: BTreeMap<String, u64> = p.outgoing.iter().map(|(k, v)| (hexs(k.as_slice()), *v)).collect();
            pays.insert(hexs(&h.0), json!({"incoming": inc, "outgoing": out, "cltv_in_min": p.incoming_cltv_min, "cltv_out_max": p.outgoing_cltv_max, "preimage": p.preimage.map(|x| hexs(&x.0))}));
        }
        let allow: Vec<String> = st.allowlist.iter().map(|a| lightning_signer::node::ToStringForNetwork::to_string(a, node.network())).collect();
        json!({
            "invoices": inv, "issued_invoices": issued, "payments": pays, "excess_amount": st.excess_amount,
            "dbid_high_water_mark": st.dbid_high_water_mark, "allowlist": allow,
            "velocity": velocity_value(&st.velocity_control), "fee_velocity": velocity_value(&st.fee_velocity_control),
        })
    };
    let tracker = {
        let t = node.get_tracker();
        let e: vls_persist::model::ChainTrackerEntry = (&*t).into();
        let mut v = serde_json::to_value(&e).unwrap();
        // read directly as well: the entry is produced by the same conversion the store uses
        if let Some(o) = v.as_object_mut() {
            o.insert("direct_height".into(), json!(t.height()));
            o.insert("direct_tip".into(), json!(t.tip().0.block_hash().to_string()));
            o.insert("direct_tip_filter_header".into(), json!(t.tip().1.to_string()));
            o.insert("direct_headers".into(), json!(t.headers.iter().map(|h| format!("{}/{}", h.0.block_hash(), h.1)).collect::<Vec<_>>()));
        }
        v
    };
    Snap { channels, node: node_v, tracker }
}

/// Components of the signer's state that differ between two observations.
pub fn snap_diffs(before: &Snap, after: &Snap) -> Vec<String> {
    let mut diffs: Vec<String> = vec![];
    for (k, v) in before.channels.iter() {
        match after.channels.get(k) {
            Some(v2) => diff_values("channel", v, v2, &mut diffs),
            None => diffs.push("channel(removed)".into()),
        }
    }
    if after.channels.len() > before.channels.len() {
        diffs.push("channel(added)".into());
    }
    diff_values("node", &before.node, &after.node, &mut diffs);
    diff_values("tracker", &before.tracker, &after.tracker, &mut diffs);
    diffs
}

/// Names of the components that differ (first few paths), for signatures and messages.
pub fn diff_values(path: &str, a: &Value, b: &Value, out: &mut Vec<String>) {
    if out.len() > 6 || a == b {
        return;
    }
    match (a, b) {
        (Value::Object(x), Value::Object(y)) => {
            let keys: std::collections::BTreeSet<&String> = x.keys().chain(y.keys()).collect();
            for k in keys {
                match (x.get(k), y.get(k)) {
                    (Some(p), Some(q)) => diff_values(&format!("{}.{}", path, k), p, q, out),
                    _ => out.push(format!("{}.{}", path, k)),
                }
            }
        }
        _ => out.push(path.to_string()),
    }
}
