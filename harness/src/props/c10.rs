//! C10 — a refused request changes nothing.
//!
//! Around every request that returns an error: equality of every channel's enforcement state,
//! setup and ids, the node's payment / invoice bookkeeping (velocity controls as absolute-time
//! bucket maps), the tracker entry and the full store dump; with the cloud-staged store,
//! prepare() after a refused request reports no mutations.

use crate::engine::*;
use crate::props::unionm::*;
use proptest::prelude::*;
use serde::{Deserialize, Serialize};
use serde_json::json;

#[derive(Clone, Debug, Serialize, Deserialize)]
pub struct Case {
    pub cloud: bool,
    pub anchors: bool,
    /// start with a full window of remembered headers in the tracker
    #[serde(default)]
    pub full_window: bool,
    pub ops: Vec<Op>,
    /// wire group: a holder-commitment history (the generator of C01/C02) sent through the
    /// protocol handlers at this protocol version; every refused message is compared
    #[serde(default)]
    pub wire: Option<WireCase>,
    /// API group: the node persists through KVVPersister<RedbKVVStore> (the store vlsd uses by
    /// default, database on tmpfs); the store dump compared around every refused request is redb's
    #[serde(default)]
    pub redb: bool,
}

#[derive(Clone, Debug, Serialize, Deserialize)]
pub struct WireCase {
    pub version: u8,
    pub outbound: bool,
    pub ops: Vec<crate::props::holder::Op>,
    /// 0 = no; k > 0: after the history a SetupChannel is sent through a channel handler for a
    /// (peer, dbid) that was never announced with NewChannel (k % 3: well-formed / holder delay
    /// out of range / counterparty delay out of range); it is refused and must change nothing
    #[serde(default)]
    pub setup_unannounced: u8,
}

pub struct C10;

impl C10 {
    /// Wire group: the signer is built and driven like vlsd drives it (protocol handlers,
    /// messages serialised and parsed back); a refused message must leave the node, the channels,
    /// the tracker and the store as they were.
    fn run_wire(&self, case: &Case, wc: &WireCase, st: &mut CaseStats, ctx: &Ctx) -> Result<(), Violation> {
        let mut m = crate::props::proto::setup_proto(case.anchors, wc.outbound, wc.version as u32);
        m.watch_refusals = true;
        st.class(format!("wire:v{}", wc.version));
        let mut trace = vec![];
        for (i, op) in wc.ops.iter().enumerate() {
            if m.dead {
                st.class("history_truncated_after_abort");
                break;
            }
            if matches!(op, crate::props::holder::Op::StorageFault) {
                continue;
            }
            let watched = m.refusals_watched;
            let next = m.next_num().min(3);
            let so = crate::props::holder::HistoryMachine::step(&mut m, i, op);
            st.class(format!("wire:{}:{}", so.kind, so.tag));
            if trace.len() < 40 {
                trace.push(json!({"i": i, "op": op, "kind": so.kind, "result": so.tag, "err": so.err}));
            }
            if let Some((name, err, diffs)) = m.refusal_diffs.first() {
                ctx.report(st, Violation::new(
                    format!("C10:wire:refused-message-mutated-state:{}:{}", name, strip_ids(&diffs[0])),
                    format!("step {} {:?} (protocol v{}): {} refused with '{}' but state changed: {:?}", i, op, wc.version, name, err, diffs),
                ))?;
                st.class("history_truncated_after_known_finding");
                break;
            }
            if m.refusals_watched > watched && next > 0 {
                st.class("wire:refused_message_compared");
                st.nontrivial_shape(("wire", so.kind, so.err.chars().take(48).collect::<String>(), next, wc.version));
            }
        }
        if wc.setup_unannounced > 0 && !m.dead {
            let mut spec = crate::world::ChanSpec::basic(30 + (wc.setup_unannounced as u64 / 3));
            spec.anchors = case.anchors;
            spec.peer = 2;
            let before = (observe(m.w.node()), m.w.store_dump());
            let r = m.w.setup_unannounced(&spec, wc.setup_unannounced);
            st.class(format!("wire:setup-unannounced:{}", r.tag()));
            if r.is_err() {
                let after = (observe(m.w.node()), m.w.store_dump());
                let mut diffs: Vec<String> = vec![];
                for (k, v) in before.0.channels.iter() {
                    match after.0.channels.get(k) {
                        Some(v2) => diff_values("channel", v, v2, &mut diffs),
                        None => diffs.push("channel(removed)".into()),
                    }
                }
                for k in after.0.channels.keys() {
                    if !before.0.channels.contains_key(k) {
                        diffs.push("channel(added)".into());
                    }
                }
                diff_values("node", &before.0.node, &after.0.node, &mut diffs);
                diff_values("tracker", &before.0.tracker, &after.0.tracker, &mut diffs);
                if before.1 != after.1 {
                    let keys_b: std::collections::BTreeSet<&String> = before.1.iter().map(|(k, _, _)| k).collect();
                    let added: Vec<String> = after.1.iter().filter(|(k, _, _)| !keys_b.contains(k)).map(|(k, _, _)| k.split('/').next().unwrap_or("").to_string()).collect();
                    diffs.push(if added.is_empty() { "store(entry-changed)".to_string() } else { format!("store(entry-added:{})", added[0]) });
                }
                if let Some(d) = diffs.first() {
                    ctx.report(st, Violation::new(
                        format!("C10:wire:refused-message-mutated-state:SetupChannel(unannounced):{}", strip_ids(d)),
                        format!("SetupChannel for a channel that was never announced (protocol v{}, variant {}) was refused with '{}' but state changed: {:?}", wc.version, wc.setup_unannounced % 3, r.err_msg(), diffs),
                    ))?;
                } else {
                    st.class("wire:refused_message_compared");
                }
            }
        }
        st.sample = Some(json!({"wire": wc.version, "anchors": case.anchors, "outbound": wc.outbound, "trace": trace}));
        Ok(())
    }
}

fn strip_ids(p: &str) -> String {
    // drop hex ids and numbers so that signatures stay stable
    p.split('.').filter(|s| !(s.len() >= 16 && s.chars().all(|c| c.is_ascii_hexdigit())) && !s.chars().all(|c| c.is_ascii_digit())).collect::<Vec<_>>().join(".")
}

impl Prop for C10 {
    type Case = Case;
    fn id(&self) -> &'static str {
        "C10"
    }
    fn rule(&self) -> String {
        "histories (<=40 quick / <=100 thorough requests) on a node with two ready channels (plus channels created on the way) mixing: holder \
         validate (phase 1/2, number next+d, valid or invalid signatures) / revoke / activate / secret / force-close signing, counterparty \
         sign (right or wrong point) / revocation (matching, other-index, random secret), mutual close (good, foreign destination, fee too \
         high, value mismatch), invoice and keysend approvals, preimages, on-chain checks (good, fee too high, unknown destination, bad \
         version), allowlist edits incl. unparsable entries, block add/remove through the node's tracker with the handler's persist \
         envelope (valid, wrong previous hash, proof for another height/block), new/setup (bad delay)/forget channel, heartbeat, clock \
         advance; about 35-40% of requests are refusable; plain memory store or CloudKVVStore with the vlsd enter/prepare/commit envelope. \
         Oracle: for every request that returns an error, the observation taken before equals the one taken after (all channels' \
         EnforcementState/setup/ids as serde values, invoices, issued invoices, payments, excess amount, high-water mark, allowlist, velocity \
         controls as absolute-time bucket maps, persisted tracker entry incl. monitor states and watches, full store dump) and, in cloud \
         mode, prepare() reported no mutation. Non-trivial: refusals issued from a state with >=1 advanced counter; distinct by (request \
         kind, error class, abstract counters)."
            .into()
    }
    fn assumptions(&self) -> Vec<String> {
        vec![
            "failures of the storage backend are not generated (outside the property)".into(),
            "bucket rotation of velocity controls caused by the clock alone is not a change".into(),
            "API-level requests with the handler's persist envelope for tracker updates; wire-protocol handlers are not driven here".into(),
        ]
    }
    fn cases(&self, tier: Tier) -> u32 {
        tier.pick(800, 8000)
    }
    fn min_nontrivial(&self, tier: Tier) -> usize {
        tier.pick(150, 1500)
    }
    fn strategy(&self, tier: Tier) -> BoxedStrategy<Case> {
        let n = tier.pick(40usize, 100usize);
        let api = (prop::bool::weighted(0.4), any::<bool>(), prop::bool::weighted(0.4), proptest::collection::vec(op_strat(true), 1..n), prop::bool::weighted(0.15)).prop_map(|(cloud, anchors, full_window, ops, redb)| Case { cloud: cloud && !redb, anchors, full_window, ops, wire: None, redb });
        let wire = (4u8..7, any::<bool>(), any::<bool>(), proptest::collection::vec(crate::props::holder::op_strat(2, 2), 1..n), prop_oneof![2 => Just(0u8), 1 => 1u8..7])
            .prop_map(|(version, anchors, outbound, ops, setup_unannounced)| Case { cloud: false, anchors, full_window: false, ops: vec![], wire: Some(WireCase { version, outbound, ops, setup_unannounced }), redb: false });
        prop_oneof![4 => api, 1 => wire].boxed()
    }
    fn run(&self, case: &Case, st: &mut CaseStats, ctx: &Ctx) -> Result<(), Violation> {
        if let Some(wc) = &case.wire {
            return self.run_wire(case, wc, st, ctx);
        }
        let mut m = Machine::new_mode_store(case.cloud && !case.redb, false, case.anchors, false, case.redb);
        if case.redb {
            st.class("redb_store_history");
        }
        if case.full_window {
            m.fill_header_window();
            st.class("full_header_window");
        }
        let mut trace = vec![];
        // expand the two-request macro ops so that every request gets its own before/after
        let mut prim: Vec<Op> = vec![];
        for op in case.ops.iter() {
            match op {
                Op::HAdvance { ch, c } => {
                    prim.push(Op::HValidate { ch: *ch, d: 0, c: c.clone(), sig: crate::world::SigKind::Valid, phase1: false });
                    prim.push(Op::HRevoke { ch: *ch, d: 0 });
                    prim.push(Op::HActivate { ch: *ch });
                }
                Op::CAdvance { ch, c } => {
                    prim.push(Op::CSign { ch: *ch, d: 0, wrong_point: false, c: c.clone(), phase1: false });
                    prim.push(Op::CRevoke { ch: *ch, d: 0, sec: SecSel::Matching });
                }
                o => match expand_macro(o) {
                    Some(ps) => prim.extend(ps),
                    None => prim.push(o.clone()),
                },
            }
        }
        for (i, op) in prim.iter().enumerate() {
            if m.dead {
                st.class("history_truncated_after_abort");
                break;
            }
            let before = observe(&m.w.node);
            let dump_before = m.w.store_dump();
            let counters: Vec<(u64, u64, u64)> = (0..2).map(|ci| {
                m.w.node.with_channel(&m.w.chans[ci].id0, |c| Ok((c.enforcement_state.next_holder_commit_num.min(2), c.enforcement_state.next_counterparty_commit_num.min(2), c.enforcement_state.next_counterparty_revoke_num.min(2)))).unwrap_or((0, 0, 0))
            }).collect();
            let results = m.step(op);
            for r in results.iter() {
                st.class(format!("{}:{}", r.kind, r.tag));
                if std::env::var("VERIF_ERRCLASS").is_ok() && !r.err.is_empty() {
                    st.class(format!("E:{}:{}", r.kind, r.err));
                }
                if trace.len() < 60 {
                    trace.push(json!({"i": i, "op": op, "kind": r.kind, "result": r.tag, "err": r.err}));
                }
                // a declined approval (Ok(false): the velocity limit would be exceeded) is a refusal
                // too; only the velocity controls themselves are not compared for it (the
                // attempt legitimately rotates their buckets)
                let declined = r.tag == "declined";
                if r.tag != "err" && !declined {
                    continue;
                }
                if let Some(n) = r.muts {
                    if n > 0 {
                        ctx.report(st, Violation::new(
                            format!("C10:refused-request-left-pending-mutations:{}", r.kind),
                            format!("step {} {:?}: refused with '{}' but prepare() reported {} mutations", i, op, r.err, n),
                        ))?;
                    }
                }
                let after = observe(&m.w.node);
                let dump_after = m.w.store_dump();
                let mut diffs: Vec<String> = vec![];
                for (k, v) in before.channels.iter() {
                    match after.channels.get(k) {
                        Some(v2) => diff_values("channel", v, v2, &mut diffs),
                        None => diffs.push("channel(removed)".into()),
                    }
                }
                if after.channels.len() > before.channels.len() {
                    diffs.push("channel(added)".into());
                }
                if declined {
                    let strip = |v: &serde_json::Value| {
                        let mut v = v.clone();
                        if let Some(o) = v.as_object_mut() {
                            o.remove("velocity");
                            o.remove("fee_velocity");
                        }
                        v
                    };
                    diff_values("node", &strip(&before.node), &strip(&after.node), &mut diffs);
                } else {
                    diff_values("node", &before.node, &after.node, &mut diffs);
                }
                diff_values("tracker", &before.tracker, &after.tracker, &mut diffs);
                if diffs.is_empty() && dump_before != dump_after {
                    let changed: Vec<String> = dump_after.iter().filter(|e| !dump_before.contains(e)).map(|e| e.0.split('/').take(2).collect::<Vec<_>>().join("/")).collect();
                    diffs.push(format!("store({})", changed.first().cloned().unwrap_or_default()));
                }
                if let Some(d) = diffs.first() {
                    ctx.report(st, Violation::new(
                        format!("C10:refused-request-mutated-state:{}:{}", r.kind, strip_ids(d)),
                        format!("step {} {:?}: refused with '{}' but state changed: {:?}", i, op, r.err, diffs),
                    ))?;
                    // the state after a real violation is meaningless: stop this history
                    st.class("history_truncated_after_known_finding");
                    m.dead = true;
                    break;
                }
                if counters.iter().any(|c| c.0 > 0 || c.1 > 0) {
                    st.nontrivial_shape((r.kind, r.err.chars().take(48).collect::<String>(), counters.clone(), case.cloud));
                }
            }
        }
        st.class(if case.cloud { "cloud_store_history" } else { "memory_store_history" });
        st.sample = Some(json!({"cloud": case.cloud, "anchors": case.anchors, "trace": trace}));
        Ok(())
    }
}
