//! C11 — every acknowledged state change is already durable.
//!
//! After every request a twin signer is restored from a copy of the store alone and compared
//! with the running signer on the items the property lists.

use crate::engine::*;
use crate::props::unionm::*;
use crate::world::Out;
use proptest::prelude::*;
use serde::{Deserialize, Serialize};
use serde_json::json;

#[derive(Clone, Debug, Serialize, Deserialize)]
pub struct Case {
    pub cloud: bool,
    pub anchors: bool,
    pub ops: Vec<Op>,
    /// the node persists through vls-persist's BackupPersister (main + backup store); after every
    /// request a signer restored from the BACKUP store alone is compared as well
    #[serde(default)]
    pub backup: bool,
    /// plain memory store only: the signer is built by HandlerBuilder and well-formed AddBlock /
    /// RemoveBlock requests are protocol messages to its root handler (the handler persists the
    /// tracker itself)
    #[serde(default)]
    pub wire_blocks: bool,
    /// the node persists through KVVPersister<RedbKVVStore> (the store vlsd uses by default); after
    /// every request one twin is restored from a byte copy of the database directory opened afresh
    /// and a second one from the entries the store lists, put into a memory store
    #[serde(default)]
    pub redb: bool,
    /// the history starts with a full window of remembered headers in the tracker (what a signer
    /// that has followed the chain for a hundred blocks holds)
    #[serde(default)]
    pub full_window: bool,
}

pub struct C11;

fn strip_ids(p: &str) -> String {
    p.split('.').filter(|s| !(s.len() >= 16 && s.chars().all(|c| c.is_ascii_hexdigit())) && !s.chars().all(|c| c.is_ascii_digit())).collect::<Vec<_>>().join(".")
}

impl Prop for C11 {
    type Case = Case;
    fn id(&self) -> &'static str {
        "C11"
    }
    fn rule(&self) -> String {
        "the union request machine of C10 with mostly valid requests (<=30 quick / <=80 thorough per history, two ready channels plus channels \
         created on the way), plain memory store or CloudKVVStore with the enter/prepare/commit envelope (the twin is restored from the \
         committed local store, i.e. after commit; a crash between prepare and commit is the pre-transaction store plus the reported \
         mutations, which is the same dump). After EVERY request (accepted or refused) a twin signer is restored from a copy of the store \
         alone (get_nodes -> Node::restore_node) and compared with the running signer: per channel ids, setup and the whole \
         EnforcementState (counters, commitment contents, points, secrets, closed flag), the persisted tracker entry (tip, height, header \
         window, every monitor state and watch set), allowlist, approved invoices, channel-id high-water mark. Non-trivial: steps whose \
         request changed at least one compared field; distinct by (request kind, changed components, abstract counters of the two channels before the request, store kind).  A fifth of the histories run on the redb store."
            .into()
    }
    fn assumptions(&self) -> Vec<String> {
        vec![
            "payments map, excess amount, issued invoices and velocity controls are not in the property's list and are not compared here (velocity: C12)".into(),
            "a fifth of the histories run the signer on KVVPersister<RedbKVVStore> (database on tmpfs): after every request one twin is restored from a byte copy of the database directory opened afresh, a second from the listed entries put into a memory store; the other histories use the in-memory KVV store".into(),
            "wire blocks (half of the plain-memory-store histories): the signer is built by HandlerBuilder + HsmdInit and AddBlock (valid or orphan) / RemoveBlock (valid) requests are protocol messages to its root handler, which persists the tracker itself; block requests the handler would answer with a panic stay at the tracker API with the handler's persist step".into(),
        ]
    }
    fn cases(&self, tier: Tier) -> u32 {
        tier.pick(240, 2500)
    }
    fn min_nontrivial(&self, tier: Tier) -> usize {
        tier.pick(100, 400)
    }
    fn strategy(&self, tier: Tier) -> BoxedStrategy<Case> {
        let n = tier.pick(30usize, 80usize);
        (prop::bool::weighted(0.3), any::<bool>(), proptest::collection::vec(op_strat(false), 1..n), prop::bool::weighted(0.25), prop::bool::weighted(0.5), prop::bool::weighted(0.2), prop::bool::weighted(0.3))
            .prop_map(|(cloud, anchors, ops, backup, wire, redb, full_window)| {
                if redb {
                    Case { cloud: false, anchors, ops, backup: false, wire_blocks: false, redb: true, full_window }
                } else {
                    Case { cloud: cloud && !backup, anchors, ops, backup, wire_blocks: wire && !cloud && !backup, redb: false, full_window }
                }
            })
            .boxed()
    }
    fn run(&self, case: &Case, st: &mut CaseStats, ctx: &Ctx) -> Result<(), Violation> {
        let mut m = Machine::new_mode_store(case.cloud, case.backup, case.anchors, case.wire_blocks, case.redb);
        if case.redb {
            st.class("redb_store_history");
        }
        if case.full_window {
            m.fill_header_window();
            st.class("full_header_window");
        }
        if m.pw.is_some() {
            st.class("wire_blocks_history");
        }
        if case.backup {
            st.class("backup_persister_history");
        }
        let mut trace = vec![];
        let mut prim: Vec<Op> = vec![];
        for op in case.ops.iter() {
            match op {
                Op::HAdvance { ch, c } => {
                    prim.push(Op::HValidate { ch: *ch, d: 0, c: c.clone(), sig: crate::world::SigKind::Valid, phase1: false });
                    prim.push(Op::HRevoke { ch: *ch, d: 0 });
                    prim.push(Op::HActivate { ch: *ch });
                }
                Op::CAdvance { ch, c } => {
                    prim.push(Op::CSign { ch: *ch, d: 0, wrong_point: false, c: c.clone(), phase1: false });
                    prim.push(Op::CRevoke { ch: *ch, d: 0, sec: SecSel::Matching });
                }
                o => match expand_macro(o) {
                    Some(ps) => prim.extend(ps),
                    None => prim.push(o.clone()),
                },
            }
        }
        let mut prev = observe(&m.w.node);
        for (i, op) in prim.iter().enumerate() {
            if m.dead {
                st.class("history_truncated_after_abort");
                break;
            }
            let counters: Vec<(u64, u64, u64)> = (0..2).map(|ci| {
                m.w.node.with_channel(&m.w.chans[ci].id0, |c| Ok((c.enforcement_state.next_holder_commit_num.min(2), c.enforcement_state.next_counterparty_commit_num.min(2), c.enforcement_state.next_counterparty_revoke_num.min(2)))).unwrap_or((0, 0, 0))
            }).collect();
            let results = m.step(op);
            let Some(r) = results.last() else { continue };
            st.class(format!("{}:{}", r.kind, r.tag));
            if m.pw.is_some() && (r.kind == "add-block" || r.kind == "remove-block") {
                st.class(format!("wire_blocks:{}:{}", r.kind, r.tag));
            }
            if trace.len() < 60 {
                trace.push(json!({"i": i, "op": op, "kind": r.kind, "result": r.tag, "err": r.err}));
            }
            if r.tag == "skip" || r.tag == "panic" {
                continue;
            }
            let live = observe(&m.w.node);
            let twin = match m.w.restore_twin() {
                Out::Ok((node2, _)) => observe(&node2),
                o => {
                    ctx.report(st, Violation::new(
                        format!("C11:restore-failed:{}", r.kind),
                        format!("step {} {:?}: a signer could not be restored from the store: {}", i, op, o.err_msg()),
                    ))?;
                    m.dead = true;
                    break;
                }
            };
            let mut diffs: Vec<String> = vec![];
            for (k, v) in live.channels.iter() {
                match twin.channels.get(k) {
                    Some(v2) => diff_values("channel", v, v2, &mut diffs),
                    None => diffs.push("channel(missing-in-twin)".into()),
                }
            }
            for k in twin.channels.keys() {
                if !live.channels.contains_key(k) {
                    diffs.push("channel(only-in-twin)".into());
                }
            }
            diff_values("tracker", &live.tracker, &twin.tracker, &mut diffs);
            for key in ["allowlist", "invoices", "dbid_high_water_mark"] {
                diff_values(&format!("node.{}", key), &live.node[key], &twin.node[key], &mut diffs);
            }
            if let Some(d) = diffs.first() {
                ctx.report(st, Violation::new(
                    format!("C11:not-durable:{}:{}", r.kind, strip_ids(d)),
                    format!("step {} {:?} ({}): a signer restored from the store differs from the running signer in {:?}", i, op, r.tag, diffs),
                ))?;
                st.class("history_truncated_after_known_finding");
                m.dead = true;
                break;
            }
            if case.redb {
                let twin_r = match m.w.restore_twin_redb() {
                    Out::Ok((node2, _home)) => observe(&node2),
                    o => {
                        ctx.report(st, Violation::new(
                            format!("C11:restore-from-redb-failed:{}", r.kind),
                            format!("step {} {:?}: a signer could not be restored from a copy of the redb database: {}", i, op, o.err_msg()),
                        ))?;
                        m.dead = true;
                        break;
                    }
                };
                let mut diffs: Vec<String> = vec![];
                for (k, v) in live.channels.iter() {
                    match twin_r.channels.get(k) {
                        Some(v2) => diff_values("channel", v, v2, &mut diffs),
                        None => diffs.push("channel(missing-in-twin)".into()),
                    }
                }
                for k in twin_r.channels.keys() {
                    if !live.channels.contains_key(k) {
                        diffs.push("channel(only-in-twin)".into());
                    }
                }
                diff_values("tracker", &live.tracker, &twin_r.tracker, &mut diffs);
                for key in ["allowlist", "invoices", "dbid_high_water_mark"] {
                    diff_values(&format!("node.{}", key), &live.node[key], &twin_r.node[key], &mut diffs);
                }
                if let Some(d) = diffs.first() {
                    ctx.report(st, Violation::new(
                        format!("C11:not-durable-in-redb:{}:{}", r.kind, strip_ids(d)),
                        format!("step {} {:?} ({}): a signer restored from a copy of the redb database differs from the running signer in {:?}", i, op, r.tag, diffs),
                    ))?;
                    st.class("history_truncated_after_known_finding");
                    m.dead = true;
                    break;
                }
            }
            if case.backup {
                let twin_b = match m.w.restore_twin_from_backup() {
                    Out::Ok(node2) => observe(&node2),
                    o => {
                        ctx.report(st, Violation::new(
                            format!("C11:restore-from-backup-failed:{}", r.kind),
                            format!("step {} {:?}: a signer could not be restored from the backup store alone: {}", i, op, o.err_msg()),
                        ))?;
                        m.dead = true;
                        break;
                    }
                };
                let mut diffs: Vec<String> = vec![];
                for (k, v) in live.channels.iter() {
                    match twin_b.channels.get(k) {
                        Some(v2) => diff_values("channel", v, v2, &mut diffs),
                        None => diffs.push("channel(missing-in-twin)".into()),
                    }
                }
                for k in twin_b.channels.keys() {
                    if !live.channels.contains_key(k) {
                        diffs.push("channel(only-in-twin)".into());
                    }
                }
                diff_values("tracker", &live.tracker, &twin_b.tracker, &mut diffs);
                for key in ["allowlist", "invoices", "dbid_high_water_mark"] {
                    diff_values(&format!("node.{}", key), &live.node[key], &twin_b.node[key], &mut diffs);
                }
                if let Some(d) = diffs.first() {
                    ctx.report(st, Violation::new(
                        format!("C11:not-durable-in-backup:{}:{}", r.kind, strip_ids(d)),
                        format!("step {} {:?} ({}): a signer restored from the BACKUP store alone differs from the running signer in {:?}", i, op, r.tag, diffs),
                    ))?;
                    st.class("history_truncated_after_known_finding");
                    m.dead = true;
                    break;
                }
            }
            // what did this request change?
            let mut changed: Vec<String> = vec![];
            for (k, v) in live.channels.iter() {
                match prev.channels.get(k) {
                    Some(v2) => diff_values("channel", v2, v, &mut changed),
                    None => changed.push("channel(new)".into()),
                }
            }
            diff_values("tracker", &prev.tracker, &live.tracker, &mut changed);
            for key in ["allowlist", "invoices", "dbid_high_water_mark"] {
                diff_values(&format!("node.{}", key), &prev.node[key], &live.node[key], &mut changed);
            }
            if let Some(c) = changed.first() {
                st.class("step_changed_compared_state");
                let comps: Vec<String> = changed.iter().map(|c| strip_ids(c)).collect();
                let _ = c;
                st.nontrivial_shape((r.kind, comps, counters.clone(), case.cloud, case.redb));
            }
            prev = live;
        }
        st.class(if case.redb { "redb_store_history_done" } else if case.cloud { "cloud_store_history" } else { "memory_store_history" });
        st.sample = Some(json!({"redb": case.redb, "cloud": case.cloud, "anchors": case.anchors, "trace": trace}));
        Ok(())
    }
}
