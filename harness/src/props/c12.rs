//! C12 — velocity limits bound spending in every time window, across restarts.
//!
//! G1: `VelocityControl` alone, with persistence round-trips between inserts.
//! G2: a real node: add_keysend / add_invoice / check_onchain_tx under a ManualClock with
//!     restarts (signer rebuilt from a copy of the store) between approvals.
//! G3: `VelocityApprover` with its documented get_state/load_from_state persistence.
//! Oracle: the exact list of approved (t, amount); after every approval at time t the sum of
//! approvals with t' >= t-(N-1)*B is <= limit (u128).

use crate::engine::*;
use crate::world::*;
use lightning_signer::bitcoin;
use lightning_signer::bitcoin::absolute::LockTime;
use lightning_signer::bitcoin::bip32::{ChildNumber, DerivationPath};
use lightning_signer::bitcoin::hashes::sha256::Hash as Sha256;
use lightning_signer::bitcoin::hashes::Hash;
use lightning_signer::bitcoin::secp256k1::{PublicKey, Secp256k1, SecretKey};
use lightning_signer::bitcoin::transaction::Version;
use lightning_signer::bitcoin::{Amount, OutPoint, ScriptBuf, Sequence, Transaction, TxIn, TxOut, Txid, Witness};
use lightning_signer::invoice::Invoice;
use lightning_signer::lightning::types::payment::{PaymentHash, PaymentSecret};
use lightning_signer::lightning_invoice::{Currency, InvoiceBuilder};
use lightning_signer::policy::simple_validator::make_default_simple_policy;
use lightning_signer::util::clock::{Clock, ManualClock};
use lightning_signer::util::velocity::{VelocityControl, VelocityControlIntervalType, VelocityControlSpec};
use lightning_signer::wallet::Wallet;
use proptest::prelude::*;
use serde::{Deserialize, Serialize};
use serde_json::json;
use std::sync::Arc;
use std::time::Duration;
use vls_protocol_signer::approver::{Approve, NegativeApprover, VelocityApprover};

#[derive(Clone, Debug, Serialize, Deserialize, PartialEq, Eq, Hash)]
pub enum Kind {
    Hourly,
    Daily,
    Custom { bucket: u32, n: u8 },
}

impl Kind {
    fn triple(&self) -> (u32, usize) {
        match self {
            Kind::Hourly => (300, 12),
            Kind::Daily => (3600, 24),
            Kind::Custom { bucket, n } => (*bucket, *n as usize),
        }
    }
}

/// time step selector, resolved against (B, N)
#[derive(Clone, Debug, Serialize, Deserialize, PartialEq, Eq, Hash)]
pub enum Dt {
    Zero,
    One,
    BucketMinus1,
    Bucket,
    BucketPlus1,
    WindowMinus1,
    Window,
    WindowPlus1,
    Interval,
    Secs(u32),
    /// half the tracked interval plus one bucket (inside the window for every interval type)
    HalfPlus,
}

impl Dt {
    fn secs(&self, b: u32, n: usize) -> u64 {
        let b = b as u64;
        let w = b * (n as u64).saturating_sub(1);
        match self {
            Dt::Zero => 0,
            Dt::One => 1,
            Dt::BucketMinus1 => b.saturating_sub(1),
            Dt::Bucket => b,
            Dt::BucketPlus1 => b + 1,
            Dt::WindowMinus1 => w.saturating_sub(1),
            Dt::Window => w,
            Dt::WindowPlus1 => w + 1,
            Dt::Interval => b * n as u64,
            Dt::Secs(s) => *s as u64,
            Dt::HalfPlus => b * n as u64 / 2 + b,
        }
    }
}

#[derive(Clone, Debug, Serialize, Deserialize, PartialEq, Eq, Hash)]
pub enum Amt {
    Zero,
    One,
    Limit,
    LimitMinus1,
    LimitPlus1,
    Half,
    Third,
    Max,
    Frac(u8),
}

impl Amt {
    fn msat(&self, limit: u64) -> u64 {
        match self {
            Amt::Zero => 0,
            Amt::One => 1,
            Amt::Limit => limit,
            Amt::LimitMinus1 => limit.saturating_sub(1),
            Amt::LimitPlus1 => limit.saturating_add(1),
            Amt::Half => limit / 2,
            Amt::Third => limit / 3,
            Amt::Max => u64::MAX,
            Amt::Frac(f) => ((limit as u128 * (*f as u128 + 1)) / 257) as u64,
        }
    }
}

#[derive(Clone, Debug, Serialize, Deserialize, PartialEq, Eq, Hash)]
pub enum Persist {
    No,
    /// through vls-persist's model struct, serialised as JSON
    Model,
    /// get_state / load_from_state (spec-based kinds only)
    State,
}

#[derive(Clone, Debug, Serialize, Deserialize, PartialEq, Eq, Hash)]
pub enum NodeEv {
    Keysend { dt: Dt, amt: Amt, h: u8 },
    Invoice { dt: Dt, amt: Amt, h: u8 },
    Onchain { dt: Dt, amt: Amt },
    Restart,
    /// the last invoice proposal is sent again unchanged (a node retries a refused invoice)
    RetryInvoice { dt: Dt },
    /// the last keysend proposal is sent again unchanged
    RetryKeysend { dt: Dt },
    /// the signer is restarted with a changed velocity configuration (the interval type given; the
    /// limits scaled by 1, 1/2 or 2): a changed specification resets the control (documented in
    /// VelocityControl::update_spec), from then on the new window and limit must hold
    RestartNewSpec { hourly: bool, scale: u8 },
}

#[derive(Clone, Debug, Serialize, Deserialize)]
pub enum Case {
    Unit { kind: Kind, limit: u64, t0: u32, events: Vec<(Dt, Amt, Persist)> },
    Node {
        hourly: bool,
        limit_sat: u32,
        fee_limit_sat: u32,
        events: Vec<NodeEv>,
        /// the signer is built by HandlerBuilder (protocol version 6) and invoices / keysends are
        /// PreapproveInvoice / PreapproveKeysend messages to its root handler (approving approver,
        /// or declining approver with the payee on the allowlist); restarts rebuild the handler from
        /// the store with the same start-up configuration
        #[serde(default)]
        wire: bool,
    },
    Approver { hourly: bool, limit: u64, events: Vec<(Dt, Amt, bool, bool)> },
}

fn dt_strat() -> impl Strategy<Value = Dt> {
    prop_oneof![
        4 => Just(Dt::Zero), 3 => Just(Dt::One), 3 => Just(Dt::BucketMinus1), 3 => Just(Dt::Bucket), 2 => Just(Dt::BucketPlus1),
        2 => Just(Dt::WindowMinus1), 2 => Just(Dt::Window), 2 => Just(Dt::WindowPlus1), 1 => Just(Dt::Interval),
        4 => (0u32..5000).prop_map(Dt::Secs), 2 => Just(Dt::HalfPlus),
    ]
}

fn amt_strat() -> impl Strategy<Value = Amt> {
    prop_oneof![
        1 => Just(Amt::Zero), 2 => Just(Amt::One), 2 => Just(Amt::Limit), 2 => Just(Amt::LimitMinus1), 2 => Just(Amt::LimitPlus1),
        4 => Just(Amt::Half), 4 => Just(Amt::Third), 1 => Just(Amt::Max), 8 => any::<u8>().prop_map(Amt::Frac),
    ]
}

fn kind_strat() -> impl Strategy<Value = Kind> {
    prop_oneof![
        2 => Just(Kind::Hourly),
        2 => Just(Kind::Daily),
        4 => (1u32..20, 1u8..7).prop_map(|(bucket, n)| Kind::Custom { bucket, n }),
    ]
}

fn persist_strat() -> impl Strategy<Value = Persist> {
    prop_oneof![6 => Just(Persist::No), 2 => Just(Persist::Model), 2 => Just(Persist::State)]
}

fn node_ev_strat() -> impl Strategy<Value = NodeEv> {
    prop_oneof![
        5 => (dt_strat(), amt_strat(), any::<u8>()).prop_map(|(dt, amt, h)| NodeEv::Keysend { dt, amt, h }),
        3 => (dt_strat(), amt_strat(), any::<u8>()).prop_map(|(dt, amt, h)| NodeEv::Invoice { dt, amt, h }),
        4 => (dt_strat(), amt_strat()).prop_map(|(dt, amt)| NodeEv::Onchain { dt, amt }),
        3 => Just(NodeEv::Restart),
        3 => dt_strat().prop_map(|dt| NodeEv::RetryInvoice { dt }),
        2 => dt_strat().prop_map(|dt| NodeEv::RetryKeysend { dt }),
        1 => (any::<bool>(), 0u8..3).prop_map(|(hourly, scale)| NodeEv::RestartNewSpec { hourly, scale }),
    ]
}

/// Ledger of approvals for one control
struct Ledger {
    b: u64,
    n: u64,
    limit: u64,
    approved: Vec<(u64, u64)>,
}

impl Ledger {
    /// record an approval at t; returns Err(sum) if the window sum now exceeds the limit
    fn approve(&mut self, t: u64, amount: u64) -> Result<(), u128> {
        self.approved.push((t, amount));
        let lo = t.saturating_sub(self.b * (self.n - 1));
        let sum: u128 = self.approved.iter().filter(|(t2, _)| *t2 >= lo && *t2 <= t).map(|(_, a)| *a as u128).sum();
        if sum > self.limit as u128 {
            Err(sum)
        } else {
            Ok(())
        }
    }
    fn spans_two_buckets(&self) -> bool {
        let mut bs: Vec<u64> = self.approved.iter().filter(|(_, a)| *a > 0).map(|(t, _)| t / self.b).collect();
        bs.dedup();
        bs.len() >= 2
    }
}

/// An invoice proposal as the signer's front ends make it.
fn propose_invoice(via: u8, node: lightning_signer::prelude::Arc<lightning_signer::node::Node>, inv: Invoice) -> Out<bool> {
    use vls_protocol_signer::approver::{Approve, NegativeApprover, PositiveApprover};
    match via {
        1 => call(move || PositiveApprover().handle_proposed_invoice(&node, inv)),
        2 => call(move || NegativeApprover().handle_proposed_invoice(&node, inv)),
        _ => call(move || node.add_invoice(inv)),
    }
}

fn preapprove_reply(r: Out<crate::props::proto::Reply>) -> Out<bool> {
    use vls_protocol::msgs;
    match r {
        Out::Ok(rep) => {
            if let Some(r) = rep.as_any().downcast_ref::<msgs::PreapproveInvoiceReply>() {
                Out::Ok(r.result)
            } else if let Some(r) = rep.as_any().downcast_ref::<msgs::PreapproveKeysendReply>() {
                Out::Ok(r.result)
            } else {
                Out::Err(lightning_signer::util::status::Status::internal("unexpected reply type"))
            }
        }
        Out::Err(e) => Out::Err(e),
        Out::Panic(p) => Out::Panic(p),
    }
}

fn wire_invoice(pw: &mut crate::props::proto::ProtoWorld, inv: &Invoice) -> Out<bool> {
    use vls_protocol::msgs::{self, Message};
    let s = match inv {
        Invoice::Bolt11(b) => b.to_string(),
        _ => unreachable!(),
    };
    preapprove_reply(pw.request(crate::props::proto::To::Root, Message::PreapproveInvoice(msgs::PreapproveInvoice { invstring: vls_protocol::serde_bolt::WireString(s.into_bytes()) })))
}

fn wire_keysend(pw: &mut crate::props::proto::ProtoWorld, payee: &PublicKey, ph: &PaymentHash, amount_msat: u64) -> Out<bool> {
    use vls_protocol::msgs::{self, Message};
    preapprove_reply(pw.request(
        crate::props::proto::To::Root,
        Message::PreapproveKeysend(msgs::PreapproveKeysend { destination: vls_protocol::model::PubKey(payee.serialize()), payment_hash: vls_protocol::model::Sha256(ph.0), amount_msat }),
    ))
}

fn make_invoice(h: u8, amt_msat: u64, now: Duration) -> Option<Invoice> {
    let payment_hash = Sha256::hash(&[h, 0x55, (amt_msat & 0xff) as u8]);
    let private_key = SecretKey::from_slice(&[42; 32]).unwrap();
    if amt_msat == 0 {
        return None;
    }
    InvoiceBuilder::new(Currency::BitcoinTestnet)
        .description("c12".into())
        .payment_hash(payment_hash)
        .payment_secret(PaymentSecret([h; 32]))
        .duration_since_epoch(now)
        .min_final_cltv_expiry_delta(144)
        .amount_milli_satoshis(amt_msat)
        .build_signed(|hash| Secp256k1::new().sign_ecdsa_recoverable(hash, &private_key))
        .ok()
        .map(Invoice::Bolt11)
}

pub struct C12;

impl C12 {
    fn run_unit(&self, kind: &Kind, limit: u64, t0: u32, events: &[(Dt, Amt, Persist)], st: &mut CaseStats, ctx: &Ctx) -> Result<(), Violation> {
        let (b, n) = kind.triple();
        let limit = if limit == u64::MAX { u64::MAX - 1 } else { limit };
        let spec = match kind {
            Kind::Hourly => Some(VelocityControlSpec { limit_msat: limit, interval_type: VelocityControlIntervalType::Hourly }),
            Kind::Daily => Some(VelocityControlSpec { limit_msat: limit, interval_type: VelocityControlIntervalType::Daily }),
            Kind::Custom { .. } => None,
        };
        let mut c = match spec {
            Some(s) => VelocityControl::new(s),
            None => VelocityControl::new_with_intervals(limit, b, n),
        };
        let mut led = Ledger { b: b as u64, n: n as u64, limit, approved: vec![] };
        let mut t: u64 = 1_600_000_000 + t0 as u64;
        let mut refused = 0u32;
        let mut roundtrips = 0u32;
        let mut shape = vec![];
        for (i, (dt, amt, p)) in events.iter().enumerate() {
            t += dt.secs(b, n);
            let a = amt.msat(limit);
            match p {
                Persist::No => {}
                Persist::Model => {
                    let m: vls_persist::model::VelocityControl = c.clone().into();
                    let js = serde_json::to_vec(&m).unwrap();
                    let m2: vls_persist::model::VelocityControl = serde_json::from_slice(&js).unwrap();
                    c = m2.into();
                    roundtrips += 1;
                }
                Persist::State =>
                    if let Some(s) = spec {
                        let state = c.get_state();
                        c = VelocityControl::load_from_state(s, state);
                        roundtrips += 1;
                    },
            }
            let ok = c.insert(t, a);
            shape.push((dt.clone(), ok));
            if ok {
                if let Err(sum) = led.approve(t, a) {
                    ctx.report(st, Violation::new(
                        "C12:unit:window-exceeded",
                        format!("step {}: approvals within the last {} s sum to {} > limit {} (kind {:?}, t={}, approved={:?})", i, led.b * (led.n - 1), sum, limit, kind, t, led.approved),
                    ))?;
                    break;
                }
            } else {
                refused += 1;
            }
        }
        st.class("unit");
        if roundtrips > 0 {
            st.class("unit_with_persistence_roundtrip");
        }
        st.sample = Some(json!({"kind": kind, "limit": limit, "events": events}));
        if led.spans_two_buckets() && refused >= 1 {
            st.nontrivial_shape(("unit", kind.clone(), shape));
        }
        Ok(())
    }

    fn run_node(&self, hourly: bool, limit_sat: u32, fee_limit_sat: u32, events: &[NodeEv], wire: bool, st: &mut CaseStats, ctx: &Ctx) -> Result<(), Violation> {
        use crate::props::proto::{Negotiation, ProtoWorld};
        let itype = if hourly { VelocityControlIntervalType::Hourly } else { VelocityControlIntervalType::Daily };
        let (mut b, mut n) = if hourly { (300u32, 12usize) } else { (3600u32, 24usize) };
        let mut limit = limit_sat as u64 * 1000;
        let mut fee_limit = fee_limit_sat as u64 * 1000;
        let mut cur_hourly = hourly;
        let mut cfg = WorldCfg::default_testnet();
        cfg.policy = make_default_simple_policy(bitcoin::Network::Testnet);
        cfg.policy.global_velocity_control = VelocityControlSpec { limit_msat: limit, interval_type: itype };
        cfg.policy.fee_velocity_control = VelocityControlSpec { limit_msat: fee_limit, interval_type: itype };
        cfg.policy.max_invoices = 10_000;
        cfg.now_secs = 1_700_000_123;
        // every second limit value: the node is built with the on-chain validator factory wrapped
        // around the simple one (the shape vlsd uses); the configured limits must still apply
        let onchain_factory = limit_sat % 2 == 1 && !wire;
        let base_policy = cfg.policy.clone();
        let mut pw: Option<ProtoWorld> = if wire {
            st.class("node_wire_execution");
            // declining approver for the allowlisted-payee branch, approving approver otherwise
            Some(ProtoWorld::new_configured(cfg.clone(), 6, Negotiation::SignerCap, vec![], fee_limit_sat % 3 == 2))
        } else {
            None
        };
        let mut w = if let Some(pw) = pw.as_ref() {
            World::from_proto(pw)
        } else if onchain_factory {
            st.class("node_with_onchain_validator_factory");
            let inner = lightning_signer::policy::simple_validator::SimpleValidatorFactory::new_with_policy(cfg.policy.clone());
            let vf: lightning_signer::prelude::Arc<dyn lightning_signer::policy::validator::ValidatorFactory> =
                lightning_signer::prelude::Arc::new(lightning_signer::policy::onchain_validator::OnchainValidatorFactory::new_with_simple_factory(inner));
            World::new_with_factory(cfg, vf)
        } else {
            World::new(cfg)
        };
        // every third fee limit value: invoices are proposed directly (Node::add_invoice), through
        // Approve::handle_proposed_invoice with an approver that approves, or with one that declines
        // while the payee is on the node's allowlist (the two branches that reach add_invoice)
        let via = if wire { if fee_limit_sat % 3 == 2 { 2u8 } else { 1u8 } } else { (fee_limit_sat % 3) as u8 };
        st.class(format!("invoices_via:{}{}", if wire { "wire:" } else { "" }, ["add_invoice", "approving-approver", "allowlisted-payee"][via as usize]));
        if via == 2 {
            let payee_key = PublicKey::from_secret_key(&w.secp, &SecretKey::from_slice(&[42; 32]).unwrap());
            w.node.add_allowlist(&[format!("payee:{}", payee_key)]).expect("payee allowlist entry");
        }
        let mut pay = Ledger { b: b as u64, n: n as u64, limit, approved: vec![] };
        let mut fee = Ledger { b: b as u64, n: n as u64, limit: fee_limit, approved: vec![] };
        let payee = PublicKey::from_secret_key(&w.secp, &SecretKey::from_slice(&[5u8; 32]).unwrap());
        let mut t = w.clock.now().as_secs();
        let mut refused = 0u32;
        // the last invoice proposal: (invoice, amount, already counted as approved)
        let mut last_inv: Option<(Invoice, u64, bool)> = None;
        // the last keysend proposal: (hash, amount, already counted as approved)
        let mut last_ks: Option<(PaymentHash, u64, bool)> = None;
        let mut counted_invoices: std::collections::BTreeSet<[u8; 32]> = Default::default();
        let mut restart_between = false;
        let mut restarted_since_approval = false;
        let mut shape = vec![];
        let mut uniq = 0u32;
        let mut trace = vec![];
        for (i, ev) in events.iter().enumerate() {
            match ev {
                NodeEv::Keysend { dt, amt, h } | NodeEv::Invoice { dt, amt, h } => {
                    t += dt.secs(b, n);
                    w.clock.set(Duration::from_secs(t));
                    let a = amt.msat(limit);
                    uniq += 1;
                    let is_inv = matches!(ev, NodeEv::Invoice { .. });
                    // an invoice that is already on record is answered from the record: not a new approval
                    let mut already_recorded = false;
                    let mut inv_id: Option<[u8; 32]> = None;
                    let res: Out<bool> = if is_inv {
                        let Some(inv) = make_invoice(*h, a.min(u64::MAX / 4), Duration::from_secs(t)) else { continue };
                        {
                            // by the ledger's own record (not the signer's): an invoice counted as
                            // approved before is answered from the signer's record
                            use lightning_signer::invoice::InvoiceAttributes;
                            inv_id = Some(inv.invoice_hash());
                            already_recorded = counted_invoices.contains(&inv.invoice_hash());
                        }
                        last_inv = Some((inv.clone(), a.min(u64::MAX / 4), already_recorded));
                        let node = w.node.clone();
                        match pw.as_mut() {
                            Some(pw) => wire_invoice(pw, &inv),
                            None => propose_invoice(via, node, inv),
                        }
                    } else {
                        // unique hash per event so that it is a new approval
                        let ph = PaymentHash(Sha256::hash(&[*h, (uniq & 0xff) as u8, (uniq >> 8) as u8, 0x77]).to_byte_array());
                        let node = w.node.clone();
                        last_ks = Some((ph, a, false));
                        match pw.as_mut() {
                            Some(pw) => wire_keysend(pw, &payee, &ph, a),
                            None => call(move || node.add_keysend(payee, ph, a)),
                        }
                    };
                    let a = if is_inv { a.min(u64::MAX / 4) } else { a };
                    if already_recorded && matches!(res, Out::Ok(true)) {
                        st.class("invoice_already_on_record(not a new approval)");
                        continue;
                    }
                    let approved = matches!(res, Out::Ok(true));
                    shape.push((0u8, approved));
                    if trace.len() < 40 {
                        trace.push(json!({"ev": ev, "t": t, "msat": a, "approved": approved, "result": res.tag()}));
                    }
                    if res.is_panic() {
                        st.class("node_abort");
                        break;
                    }
                    if approved && !is_inv {
                        if let Some(l) = last_ks.as_mut() {
                            l.2 = true;
                        }
                    }
                    if approved && is_inv {
                        if let Some(l) = last_inv.as_mut() {
                            l.2 = true;
                        }
                        if let Some(id) = inv_id {
                            counted_invoices.insert(id);
                        }
                    }
                    if approved {
                        if restarted_since_approval && !pay.approved.is_empty() {
                            restart_between = true;
                        }
                        restarted_since_approval = false;
                        if let Err(sum) = pay.approve(t, a) {
                            let site = if w.restarts > 0 { "C12:node:payment-window-exceeded-after-restart" } else { "C12:node:payment-window-exceeded" };
                            ctx.report(st, Violation::new(site, format!(
                                "step {} {:?}: approved payments within {} s sum to {} msat > limit {} (restarts so far {}, approvals {:?})",
                                i, ev, pay.b * (pay.n - 1), sum, limit, w.restarts, pay.approved)))?;
                            break;
                        }
                    } else {
                        refused += 1;
                    }
                }
                NodeEv::Onchain { dt, amt } => {
                    t += dt.secs(b, n);
                    w.clock.set(Duration::from_secs(t));
                    // fee bounded by the fee-rate policy: keep it under ~150 sat
                    let fee_sat = (amt.msat(fee_limit) / 1000).min(150);
                    let path: DerivationPath = vec![ChildNumber::from_normal_idx(1).unwrap()].into();
                    let spk: ScriptBuf = w.node.get_native_address(&path).unwrap().script_pubkey();
                    let in_val = 100_000u64;
                    let mut txid = [0u8; 32];
                    txid[0..4].copy_from_slice(&(i as u32).to_le_bytes());
                    let tx = Transaction {
                        version: Version::TWO,
                        lock_time: LockTime::ZERO,
                        input: vec![TxIn { previous_output: OutPoint { txid: Txid::from_slice(&txid).unwrap(), vout: 0 }, script_sig: ScriptBuf::new(), sequence: Sequence::MAX, witness: Witness::new() }],
                        output: vec![TxOut { value: Amount::from_sat(in_val - fee_sat), script_pubkey: spk.clone() }],
                    };
                    let prev = vec![TxOut { value: Amount::from_sat(in_val), script_pubkey: spk }];
                    let node = w.node.clone();
                    let res = call(move || node.check_onchain_tx(&tx, &[true], &prev, &[None], &[path]).map_err(|e| e.into()));
                    let approved = res.is_ok();
                    shape.push((1u8, approved));
                    if trace.len() < 40 {
                        trace.push(json!({"ev": ev, "t": t, "fee_sat": fee_sat, "approved": approved, "err": res.err_msg()}));
                    }
                    if res.is_panic() {
                        st.class("node_abort");
                        break;
                    }
                    if approved {
                        if restarted_since_approval && !fee.approved.is_empty() {
                            restart_between = true;
                        }
                        restarted_since_approval = false;
                        if let Err(sum) = fee.approve(t, fee_sat * 1000) {
                            let site = if w.restarts > 0 { "C12:node:fee-window-exceeded-after-restart" } else { "C12:node:fee-window-exceeded" };
                            ctx.report(st, Violation::new(site, format!(
                                "step {} {:?}: approved on-chain fees within {} s sum to {} msat > limit {} (restarts so far {}, approvals {:?})",
                                i, ev, fee.b * (fee.n - 1), sum, fee_limit, w.restarts, fee.approved)))?;
                            break;
                        }
                    } else {
                        refused += 1;
                    }
                }
                NodeEv::RetryInvoice { dt } => {
                    let Some((inv, a, counted)) = last_inv.clone() else { continue };
                    t += dt.secs(b, n);
                    w.clock.set(Duration::from_secs(t));
                    let node = w.node.clone();
                    let res: Out<bool> = match pw.as_mut() {
                        Some(pw) => wire_invoice(pw, &inv),
                        None => propose_invoice(via, node, inv),
                    };
                    let approved = matches!(res, Out::Ok(true));
                    st.class(format!("retry-invoice:{}:{}", if counted { "of-approved" } else { "of-refused" }, res.tag()));
                    if res.is_panic() {
                        st.class("node_abort");
                        break;
                    }
                    // an approved invoice that is proposed again is answered from the record and is
                    // not a new approval; a refused one that is now approved counts now
                    if approved && !counted {
                        last_inv.as_mut().unwrap().2 = true;
                        {
                            use lightning_signer::invoice::InvoiceAttributes;
                            counted_invoices.insert(last_inv.as_ref().unwrap().0.invoice_hash());
                        }
                        shape.push((2u8, true));
                        if let Err(sum) = pay.approve(t, a) {
                            let site = if w.restarts > 0 { "C12:node:payment-window-exceeded-after-restart" } else { "C12:node:payment-window-exceeded" };
                            ctx.report(st, Violation::new(site, format!(
                                "step {} {:?}: approved payments within {} s sum to {} msat > limit {} (a refused invoice was approved on retry; restarts so far {}, approvals {:?})",
                                i, ev, pay.b * (pay.n - 1), sum, limit, w.restarts, pay.approved)))?;
                            break;
                        }
                    }
                }
                NodeEv::RetryKeysend { dt } => {
                    let Some((ph, a, counted)) = last_ks.clone() else { continue };
                    t += dt.secs(b, n);
                    w.clock.set(Duration::from_secs(t));
                    let node = w.node.clone();
                    let res: Out<bool> = match pw.as_mut() {
                        Some(pw) => wire_keysend(pw, &payee, &ph, a),
                        None => call(move || node.add_keysend(payee, ph, a)),
                    };
                    let approved = matches!(res, Out::Ok(true));
                    st.class(format!("retry-keysend:{}:{}", if counted { "of-approved" } else { "of-refused" }, res.tag()));
                    if res.is_panic() {
                        st.class("node_abort");
                        break;
                    }
                    if trace.len() < 40 {
                        trace.push(json!({"ev": ev, "t": t, "msat": a, "approved": approved, "was_counted": counted}));
                    }
                    // an approved keysend that is proposed again is answered from the record; a
                    // refused one that is approved now is an approval now
                    if approved && !counted {
                        last_ks.as_mut().unwrap().2 = true;
                        shape.push((3u8, true));
                        if let Err(sum) = pay.approve(t, a) {
                            let site = if w.restarts > 0 { "C12:node:payment-window-exceeded-after-restart" } else { "C12:node:payment-window-exceeded" };
                            ctx.report(st, Violation::new(site, format!(
                                "step {} {:?}: approved payments within {} s sum to {} msat > limit {} (a refused keysend was approved on retry; restarts so far {}, approvals {:?})",
                                i, ev, pay.b * (pay.n - 1), sum, limit, w.restarts, pay.approved)))?;
                            break;
                        }
                    }
                }
                NodeEv::RestartNewSpec { .. } if wire => {
                    // the wire world restarts with the start-up configuration it was built with
                    st.class("restart-with-new-spec:skipped(wire)");
                    continue;
                }
                NodeEv::RestartNewSpec { hourly: nh, scale } => {
                    let new_limit = match scale { 1 => (limit / 2).max(1000), 2 => limit.saturating_mul(2), _ => limit };
                    let new_fee_limit = match scale { 1 => (fee_limit / 2).max(1000), 2 => fee_limit.saturating_mul(2), _ => fee_limit };
                    let nit = if *nh { VelocityControlIntervalType::Hourly } else { VelocityControlIntervalType::Daily };
                    let mut pol = base_policy.clone();
                    pol.global_velocity_control = VelocityControlSpec { limit_msat: new_limit, interval_type: nit };
                    pol.fee_velocity_control = VelocityControlSpec { limit_msat: new_fee_limit, interval_type: nit };
                    let inner = lightning_signer::policy::simple_validator::SimpleValidatorFactory::new_with_policy(pol);
                    let vf: lightning_signer::prelude::Arc<dyn lightning_signer::policy::validator::ValidatorFactory> = if onchain_factory {
                        lightning_signer::prelude::Arc::new(lightning_signer::policy::onchain_validator::OnchainValidatorFactory::new_with_simple_factory(inner))
                    } else {
                        lightning_signer::prelude::Arc::new(inner)
                    };
                    w.vfactory = vf;
                    let r = w.restart();
                    shape.push((4u8, r.is_ok()));
                    if !r.is_ok() {
                        st.class("node_restart_failed");
                        break;
                    }
                    let changed_pay = *nh != cur_hourly || new_limit != limit;
                    let changed_fee = *nh != cur_hourly || new_fee_limit != fee_limit;
                    st.class(format!("restart-with-new-spec:{}", if changed_pay || changed_fee { "changed" } else { "identical" }));
                    cur_hourly = *nh;
                    (b, n) = if *nh { (300u32, 12usize) } else { (3600u32, 24usize) };
                    limit = new_limit;
                    fee_limit = new_fee_limit;
                    // a changed specification resets the control: approvals before it are not held against the new one
                    if changed_pay {
                        pay = Ledger { b: b as u64, n: n as u64, limit, approved: vec![] };
                    }
                    if changed_fee {
                        fee = Ledger { b: b as u64, n: n as u64, limit: fee_limit, approved: vec![] };
                    }
                    restarted_since_approval = true;
                }
                NodeEv::Restart => {
                    let r = match pw.as_mut() {
                        Some(pw) => {
                            let r = pw.restart();
                            if r.is_ok() {
                                w.rebind_proto(pw);
                            }
                            r
                        }
                        None => w.restart(),
                    };
                    shape.push((2u8, r.is_ok()));
                    if !r.is_ok() {
                        st.class("node_restart_failed");
                        break;
                    }
                    restarted_since_approval = true;
                }
            }
        }
        st.class("node");
        if restart_between {
            st.class("node_restart_between_two_approvals");
        }
        st.sample = Some(json!({"hourly": hourly, "limit_msat": limit, "fee_limit_msat": fee_limit, "trace": trace}));
        if (pay.spans_two_buckets() || fee.spans_two_buckets()) && refused >= 1 && restart_between {
            st.nontrivial_shape(("node", hourly, shape));
        }
        Ok(())
    }

    fn run_approver(&self, hourly: bool, limit: u64, events: &[(Dt, Amt, bool, bool)], st: &mut CaseStats, ctx: &Ctx) -> Result<(), Violation> {
        let itype = if hourly { VelocityControlIntervalType::Hourly } else { VelocityControlIntervalType::Daily };
        let (b, n) = if hourly { (300u32, 12usize) } else { (3600u32, 24usize) };
        let limit = if limit == u64::MAX { u64::MAX - 1 } else { limit };
        let spec = VelocityControlSpec { limit_msat: limit, interval_type: itype };
        let clock = Arc::new(ManualClock::new(Duration::from_secs(1_700_000_000)));
        let mut approver = VelocityApprover::new(clock.clone(), VelocityControl::new(spec), NegativeApprover());
        let mut led = Ledger { b: b as u64, n: n as u64, limit, approved: vec![] };
        let mut t = 1_700_000_000u64;
        let mut refused = 0u32;
        let mut restarts = 0u32;
        let mut shape = vec![];
        for (i, (dt, amt, invoice, restart)) in events.iter().enumerate() {
            if *restart {
                // documented persistence path of the approver
                let state = approver.control().get_state();
                approver = VelocityApprover::new(clock.clone(), VelocityControl::load_from_state(spec, state), NegativeApprover());
                restarts += 1;
            }
            t += dt.secs(b, n);
            clock.set(Duration::from_secs(t));
            let a = amt.msat(limit).min(u64::MAX / 4);
            let ok = if *invoice {
                let Some(inv) = make_invoice(i as u8, a, Duration::from_secs(t)) else { continue };
                approver.approve_invoice(&inv)
            } else {
                approver.approve_keysend(PaymentHash([i as u8; 32]), a)
            };
            shape.push((dt.clone(), ok));
            if ok {
                if let Err(sum) = led.approve(t, a) {
                    ctx.report(st, Violation::new("C12:approver:window-exceeded", format!(
                        "step {}: VelocityApprover approved {} msat within {} s > limit {} (restarts {}, approvals {:?})", i, sum, led.b * (led.n - 1), limit, restarts, led.approved)))?;
                    break;
                }
            } else {
                refused += 1;
            }
        }
        st.class("approver");
        st.sample = Some(json!({"hourly": hourly, "limit": limit, "events": events}));
        if led.spans_two_buckets() && refused >= 1 && restarts >= 1 {
            st.nontrivial_shape(("approver", hourly, shape));
        }
        Ok(())
    }
}

impl Prop for C12 {
    type Case = Case;
    fn id(&self) -> &'static str {
        "C12"
    }
    fn rule(&self) -> String {
        "G1: VelocityControl with interval type Hourly/Daily/custom (bucket 1-19 s, 1-6 buckets), limit drawn incl. 0, small and near-u64 \
         values, non-decreasing timestamps whose steps are concentrated at bucket and window boundaries (0, 1, B-1, B, B+1, (N-1)B-1, \
         (N-1)B, (N-1)B+1, NB, random), amounts 0/1/limit/limit+-1/fractions/u64::MAX, and a persistence round-trip (vls-persist model as \
         JSON, or get_state/load_from_state) before any insert. G2: a real node with global and fee velocity limits configured in the \
         policy, under a ManualClock: add_keysend, add_invoice, check_onchain_tx and restarts (node rebuilt from a copy of its store). \
         G3: VelocityApprover with its documented state save/restore. Oracle: exact list of approved (t, amount); after each approval \
         the sum over approvals in [t-(N-1)B, t] <= limit (u128). Non-trivial: approvals spanning >=2 buckets and >=1 refusal (G2/G3: \
         and a restart between two approvals); distinct by (generator, step selector, outcome) sequence."
            .into()
    }
    fn assumptions(&self) -> Vec<String> {
        vec![
            "timestamps are non-decreasing (the quantifier's domain)".into(),
            "on-chain fees are capped at 150 sat per request so that the fee-rate policy does not refuse them first".into(),
        ]
    }
    fn cases(&self, tier: Tier) -> u32 {
        tier.pick(15_000, 200_000)
    }
    fn strategy(&self, tier: Tier) -> BoxedStrategy<Case> {
        let n = tier.pick(25usize, 60usize);
        let limit = prop_oneof![
            1 => Just(0u64), 6 => 1u64..2000, 3 => 1_000_000u64..100_000_000, 1 => Just(u64::MAX - 1), 1 => Just(u64::MAX / 2),
        ];
        prop_oneof![
            10 => (kind_strat(), limit.clone(), any::<u32>(), proptest::collection::vec((dt_strat(), amt_strat(), persist_strat()), 1..n))
                .prop_map(|(kind, limit, t0, events)| Case::Unit { kind, limit, t0, events }),
            1 => (any::<bool>(), 1u32..1000, 1u32..500, proptest::collection::vec(node_ev_strat(), 1..n), prop::bool::weighted(0.3))
                .prop_map(|(hourly, limit_sat, fee_limit_sat, events, wire)| Case::Node { hourly, limit_sat, fee_limit_sat, events, wire }),
            1 => (any::<bool>(), limit, proptest::collection::vec((dt_strat(), amt_strat(), any::<bool>(), prop::bool::weighted(0.2)), 1..n))
                .prop_map(|(hourly, limit, events)| Case::Approver { hourly, limit, events }),
        ]
        .boxed()
    }
    fn run(&self, case: &Case, st: &mut CaseStats, ctx: &Ctx) -> Result<(), Violation> {
        match case {
            Case::Unit { kind, limit, t0, events } => self.run_unit(kind, *limit, *t0, events, st, ctx),
            Case::Node { hourly, limit_sat, fee_limit_sat, events, wire } => self.run_node(*hourly, *limit_sat, *fee_limit_sat, events, *wire, st, ctx),
            Case::Approver { hourly, limit, events } => self.run_approver(*hourly, *limit, events, st, ctx),
        }
    }
    fn min_nontrivial(&self, tier: Tier) -> usize {
        tier.pick(200, 1000)
    }
}
