//! C03 — counterparty commitments advance only over properly revoked predecessors.
//!
//! G1: histories of sign-counterparty-commitment / validate-revocation requests on a real
//! channel, counterparty points drawn from two commitment seeds so that a revocation can be
//! point-consistent yet break the BOLT-3 derivation tree.
//! G2: sequences fed to `CounterpartyCommitmentSecrets` in the shape the channel feeds it.

use crate::engine::*;
use crate::props::holder::{finish_content, short_err, HSel};
use crate::world::*;
use lightning_signer::bitcoin::hashes::sha256::Hash as Sha256;
use lightning_signer::bitcoin::hashes::Hash;
use lightning_signer::bitcoin::secp256k1::ecdsa::Signature;
use lightning_signer::bitcoin::secp256k1::{PublicKey, SecretKey};
use lightning_signer::lightning::ln::chan_utils::build_commitment_secret;
use lightning_signer::policy::validator::CounterpartyCommitmentSecrets;
use proptest::prelude::*;
use serde::{Deserialize, Serialize};
use serde_json::json;
use std::collections::BTreeMap;

const MAXI: u64 = (1 << 48) - 1;

#[derive(Clone, Debug, Serialize, Deserialize, PartialEq, Eq, Hash)]
pub enum CSel {
    Same,
    Add(HSel),
    Remove,
    Fresh { fee: u8, to_cp: u8, htlcs: Vec<HSel> },
    /// the content already signed for this number (or the last content) with exactly one
    /// attribute changed: 0 fee rate +1 (balances kept), 1 expiry of the first HTLC set to 0 (or to
    /// 1000 if it is 0), 2 first HTLC +1 sat (taken from the holder), 3 fee rate -1
    Tweak(u8),
}

#[derive(Clone, Debug, Serialize, Deserialize, PartialEq, Eq, Hash)]
pub enum SecSel {
    /// the secret of the point last signed for that number
    Matching,
    /// same index, the other commitment seed
    OtherSeed,
    /// the right seed, a neighbouring index
    OtherIndex(i8),
    Random(u8),
}

#[derive(Clone, Debug, Serialize, Deserialize, PartialEq, Eq, Hash)]
pub enum Op {
    /// sign counterparty commitment next_commit+d with the point of (seed, number+pd)
    Sign { d: i8, seed_b: bool, pd: i8, c: CSel, phase1: bool },
    /// validate_counterparty_revocation(next_revoke+d, secret)
    Revoke { d: i8, sec: SecSel },
    /// sign(next_commit) then revoke(next_revoke) with the matching secret: two real requests
    Advance { c: CSel, seed_b: bool },
    Restart,
}

#[derive(Clone, Debug, Serialize, Deserialize)]
pub enum Case {
    Chan {
        anchors: bool,
        outbound: bool,
        ops: Vec<Op>,
        /// the signer runs with OnchainValidatorFactory (vlsd's default) and the channel's funding
        /// transaction is confirmed on the tracker's chain
        #[serde(default)]
        onchain: bool,
        /// the node runs with the operator filter [policy-commitment-previous-revoked: error,
        /// policy-commitment-retry-same: error, policy-*: warn] merged into its policy the way
        /// vlsd merges it: the two rules this property rests on stay mandatory, everything else
        /// is only logged
        #[serde(default)]
        carve_out: bool,
        /// wire execution: the signer is built by HandlerBuilder (protocol version 6), the channel
        /// is opened with NewChannel / SetupChannel, commitments are requested with
        /// SignRemoteCommitmentTx2 and revocations delivered with ValidateRevocation, every
        /// message serialised and parsed back; a restart rebuilds the handlers from the store
        #[serde(default)]
        wire: bool,
    },
    /// Store: steps = (kind, param) interpreted by `run_store`
    Store { steps: Vec<StoreOp> },
}

#[derive(Clone, Debug, Serialize, Deserialize, PartialEq, Eq, Hash)]
pub enum StoreOp {
    /// provide the next index (min_seen-1) with the true secret
    NextTrue,
    /// provide the next index with a secret from the second seed
    NextOtherSeed,
    /// provide the next index with the true secret of another index
    NextWrongIndex(i8),
    /// provide the next index with a corrupted true secret (one bit)
    NextCorrupt(u8),
    /// retry an already provided index (back from the frontier) with its accepted secret
    RetrySame(u8),
    /// read an index relative to the frontier
    Get(i16),
    /// run of k true next secrets (to reach deep bit boundaries)
    RunTrue(u8),
}

fn d_strat() -> impl Strategy<Value = i8> {
    prop_oneof![8 => Just(0i8), 3 => Just(-1i8), 2 => Just(1i8), 1 => Just(-2i8), 1 => Just(2i8)]
}

fn hsel_strat() -> impl Strategy<Value = HSel> {
    (any::<bool>(), 0u8..4, 0u8..3, 0u8..3).prop_map(|(offered, h, amt, cltv)| HSel { offered, h, amt, cltv })
}

fn csel_strat() -> impl Strategy<Value = CSel> {
    prop_oneof![
        4 => Just(CSel::Same),
        3 => hsel_strat().prop_map(CSel::Add),
        1 => Just(CSel::Remove),
        2 => (0u8..4).prop_map(CSel::Tweak),
        2 => (0u8..3, 0u8..3, proptest::collection::vec(hsel_strat(), 0..4))
            .prop_map(|(fee, to_cp, htlcs)| CSel::Fresh { fee, to_cp, htlcs }),
    ]
}

fn sec_strat() -> impl Strategy<Value = SecSel> {
    prop_oneof![
        6 => Just(SecSel::Matching),
        2 => Just(SecSel::OtherSeed),
        2 => prop_oneof![Just(-1i8), Just(1i8), Just(2i8)].prop_map(SecSel::OtherIndex),
        1 => any::<u8>().prop_map(SecSel::Random),
    ]
}

fn op_strat() -> impl Strategy<Value = Op> {
    prop_oneof![
        6 => (d_strat(), prop::bool::weighted(0.15), prop_oneof![9 => Just(0i8), 1 => Just(1i8), 1 => Just(-1i8)], csel_strat(), any::<bool>())
            .prop_map(|(d, seed_b, pd, c, phase1)| Op::Sign { d, seed_b, pd, c, phase1 }),
        6 => (d_strat(), sec_strat()).prop_map(|(d, sec)| Op::Revoke { d, sec }),
        7 => (csel_strat(), prop::bool::weighted(0.15)).prop_map(|(c, seed_b)| Op::Advance { c, seed_b }),
        1 => Just(Op::Restart),
    ]
}

fn store_op_strat() -> impl Strategy<Value = StoreOp> {
    prop_oneof![
        10 => Just(StoreOp::NextTrue),
        2 => Just(StoreOp::NextOtherSeed),
        2 => prop_oneof![Just(-1i8), Just(1i8), Just(2i8), Just(-2i8)].prop_map(StoreOp::NextWrongIndex),
        2 => any::<u8>().prop_map(StoreOp::NextCorrupt),
        2 => (0u8..6).prop_map(StoreOp::RetrySame),
        3 => (-3i16..40).prop_map(StoreOp::Get),
        3 => (1u8..70).prop_map(StoreOp::RunTrue),
    ]
}

const AMTS: [u64; 3] = [10_000, 25_000, 400_000];
const CLTVS: [u32; 3] = [1_000, 1_010, 2_000];
const FEERATES: [u32; 3] = [253, 1000, 5000];
fn mk_htlc(s: &HSel) -> Htlc {
    Htlc { h: s.h, sat: AMTS[s.amt as usize % 3], cltv: CLTVS[s.cltv as usize % 3] }
}

/// true iff `idx2` lies in the BOLT-3 subtree of `idx` (secret(idx) derives secret(idx2))
fn in_subtree(idx: u64, idx2: u64) -> bool {
    let tz = if idx == 0 { 48 } else { idx.trailing_zeros().min(48) };
    (idx >> tz) == (idx2 >> tz)
}

/// BOLT-3 derivation of secret(idx2) from secret(idx), independent implementation
fn derive(secret: [u8; 32], idx: u64, idx2: u64) -> [u8; 32] {
    let tz = if idx == 0 { 48 } else { idx.trailing_zeros().min(48) };
    let mut p = secret;
    for b in (0..tz).rev() {
        if (idx2 >> b) & 1 == 1 {
            p[(b / 8) as usize] ^= 1 << (b % 8);
            p = Sha256::hash(&p).to_byte_array();
        }
    }
    p
}

struct SignRec {
    point: PublicKey,
    seed_b: bool,
    pidx: u64,
    content: Content,
    sig: Signature,
    htlc_sigs: Option<Vec<Signature>>,
}

pub struct C03;

impl C03 {
    fn run_chan(&self, anchors: bool, outbound: bool, onchain: bool, carve_out: bool, wire: bool, ops: &[Op], st: &mut CaseStats, ctx: &Ctx) -> Result<(), Violation> {
        use crate::props::proto::{Negotiation, ProtoWorld, To};
        use vls_protocol::msgs::{self, Message};
        let mut cfg = WorldCfg::default_testnet();
        if carve_out {
            use lightning_signer::policy::filter::{FilterResult, FilterRule, PolicyFilter};
            let mut f = PolicyFilter::default();
            f.merge(PolicyFilter {
                rules: vec![
                    FilterRule { tag: "policy-commitment-previous-revoked".to_string(), is_prefix: false, action: FilterResult::Error },
                    FilterRule { tag: "policy-commitment-retry-same".to_string(), is_prefix: false, action: FilterResult::Error },
                    FilterRule { tag: "policy-".to_string(), is_prefix: true, action: FilterResult::Warn },
                ],
            });
            cfg.policy.filter.merge(f);
            st.class("carve_out_filter");
        }
        let wire = wire && !onchain;
        let mut pw: Option<ProtoWorld> = if wire { Some(ProtoWorld::new(cfg.clone(), 6, Negotiation::SignerCap)) } else { None };
        let mut w = match pw.as_ref() {
            Some(pw) => World::from_proto(pw),
            None => if onchain { World::new_onchain(cfg) } else { World::new(cfg) },
        };
        st.class(if wire { "wire-execution" } else if onchain { "onchain-factory" } else { "simple-factory" });
        let mut spec = ChanSpec::basic(1);
        spec.anchors = anchors;
        spec.outbound = outbound;
        let ci = if let Some(pw) = pw.as_mut() {
            let Out::Ok(pci) = pw.new_stub(&spec) else { return Ok(()) };
            if !pw.setup_chan(pci).is_ok() {
                st.class("wire:setup-refused");
                return Ok(());
            }
            w.chans.push(pw.chans[pci].clone());
            w.chans.len() - 1
        } else if onchain { crate::chainpool::open_confirmed(&mut w, &spec).0 } else { w.open(&spec) };
        let payee = PublicKey::from_secret_key(&w.secp, &SecretKey::from_slice(&[5u8; 32]).unwrap());
        for h in 0u8..4 {
            w.node.add_keysend(payee, phash(h), 2_000_000_000).expect("keysend");
        }
        let seed_a = w.chans[ci].cp.seed;
        let seed_b = Sha256::hash(b"vverif/c03/seedB").to_byte_array();
        let sec_of = |b: bool, n: u64| -> [u8; 32] { build_commitment_secret(if b { &seed_b } else { &seed_a }, MAXI - n) };

        let mut signed: BTreeMap<u64, SignRec> = BTreeMap::new();
        let mut revoked: BTreeMap<u64, [u8; 32]> = BTreeMap::new();
        let mut last_content: Option<Content> = None;
        let mut shape: Vec<(u8, i8, u8, &'static str)> = vec![];
        let mut trace = vec![];
        let (mut n_signed_ok, mut n_rev_ok, mut n_rev_refused) = (0u32, 0u32, 0u32);
        let mut dead = false;

        // expand macro ops into primitive requests
        let mut prim: Vec<Op> = vec![];
        for op in ops {
            match op {
                Op::Advance { c, seed_b } => {
                    prim.push(Op::Sign { d: 0, seed_b: *seed_b, pd: 0, c: c.clone(), phase1: false });
                    prim.push(Op::Revoke { d: 0, sec: SecSel::Matching });
                }
                o => prim.push(o.clone()),
            }
        }

        for (i, op) in prim.iter().enumerate() {
            if dead {
                st.class("history_truncated_after_abort");
                break;
            }
            let (next_commit, next_revoke) = w
                .with_chan(ci, |c| Ok((c.enforcement_state.next_counterparty_commit_num, c.enforcement_state.next_counterparty_revoke_num)))
                .ok()
                .unwrap();
            match op {
                Op::Sign { d, seed_b: sb, pd, c, phase1 } => {
                    let n = next_commit as i64 + *d as i64;
                    if n < 0 {
                        continue;
                    }
                    let n = n as u64;
                    let pidx = (n as i64 + *pd as i64).max(0) as u64;
                    let point = PublicKey::from_secret_key(&w.secp, &SecretKey::from_slice(&sec_of(*sb, pidx)).unwrap());
                    let chan = &w.chans[ci];
                    let value = chan.setup.channel_value_sat;
                    let base = last_content.clone().unwrap_or_else(|| finish_content(anchors, value, 1000, 0, vec![], vec![]));
                    let mut content = match c {
                        CSel::Same => signed.get(&n).map(|r| r.content.clone()).unwrap_or(base.clone()),
                        CSel::Add(h) => {
                            let (mut o, mut r) = (base.offered.clone(), base.received.clone());
                            if h.offered { o.push(mk_htlc(h)) } else { r.push(mk_htlc(h)) }
                            finish_content(anchors, value, base.feerate, base.to_cp, o, r)
                        }
                        CSel::Remove => {
                            let (mut o, mut r) = (base.offered.clone(), base.received.clone());
                            if !o.is_empty() { o.remove(0); } else if !r.is_empty() { r.remove(0); }
                            finish_content(anchors, value, base.feerate, base.to_cp, o, r)
                        }
                        CSel::Tweak(k) => {
                            let mut c2 = signed.get(&n).map(|r| r.content.clone()).unwrap_or(base.clone());
                            match k % 4 {
                                0 => c2.feerate += 1,
                                3 => c2.feerate = c2.feerate.saturating_sub(1),
                                1 => {
                                    if let Some(h) = c2.offered.first_mut().or(c2.received.first_mut()) {
                                        h.cltv = if h.cltv == 0 { 1000 } else { 0 };
                                    }
                                }
                                _ => {
                                    if c2.to_holder > 1000 {
                                        if let Some(h) = c2.offered.first_mut().or(c2.received.first_mut()) {
                                            h.sat += 1;
                                            c2.to_holder -= 1;
                                        }
                                    }
                                }
                            }
                            c2
                        }
                        CSel::Fresh { fee, to_cp, htlcs } => {
                            let o = htlcs.iter().filter(|h| h.offered).map(mk_htlc).collect();
                            let r = htlcs.iter().filter(|h| !h.offered).map(mk_htlc).collect();
                            finish_content(anchors, value, FEERATES[*fee as usize % 3], [0u64, 20_000, 700_000][*to_cp as usize % 3], o, r)
                        }
                    };
                    if n == 0 {
                        content = finish_content(anchors, value, content.feerate, 0, vec![], vec![]);
                    }
                    // counterparty commitment: offered (by the broadcaster = counterparty) are
                    // the holder's received HTLCs
                    let (cp_offered, cp_received) = (to_info2(&content.received), to_info2(&content.offered));
                    let reftx = chan.ref_cp_commitment(&w.secp, n, &point, &content);
                    let res: Out<(Signature, Option<Vec<Signature>>)> = if let Some(pw) = pw.as_mut() {
                        let mut wire_htlcs = vec![];
                        for (list, side) in [(&content.offered, vls_protocol::model::Htlc::LOCAL), (&content.received, vls_protocol::model::Htlc::REMOTE)] {
                            for h in list.iter() {
                                wire_htlcs.push(vls_protocol::model::Htlc { side, amount: h.sat * 1000, payment_hash: vls_protocol::model::Sha256(phash(h.h).0), ctlv_expiry: h.cltv });
                            }
                        }
                        let msg = Message::SignRemoteCommitmentTx2(msgs::SignRemoteCommitmentTx2 {
                            remote_per_commitment_point: vls_protocol::model::PubKey(point.serialize()),
                            commitment_number: n,
                            feerate: content.feerate,
                            to_local_value_sat: content.to_holder,
                            to_remote_value_sat: content.to_cp,
                            htlcs: vls_protocol::serde_bolt::Array(wire_htlcs),
                        });
                        match pw.request(To::Chan(0), msg) {
                            Out::Ok(rep) => match rep.as_any().downcast_ref::<msgs::SignCommitmentTxWithHtlcsReply>() {
                                Some(r) => {
                                    let sig = Signature::from_compact(&r.signature.signature.0);
                                    let hs: Result<Vec<Signature>, _> = r.htlc_signatures.0.iter().map(|s| Signature::from_compact(&s.signature.0)).collect();
                                    match (sig, hs) {
                                        (Ok(s), Ok(h)) => Out::Ok((s, Some(h))),
                                        _ => Out::Err(lightning_signer::util::status::Status::internal("malformed signature in reply")),
                                    }
                                }
                                None => Out::Err(lightning_signer::util::status::Status::internal("unexpected reply type")),
                            },
                            Out::Err(e) => Out::Err(e),
                            Out::Panic(p) => Out::Panic(p),
                        }
                    } else if *phase1 {
                        let tx = reftx.trust().built_transaction().transaction.clone();
                        let ws = witscripts(chan, &w.secp, &reftx, false);
                        w.with_chan(ci, |ch| {
                            ch.sign_counterparty_commitment_tx(&tx, &ws, &point, n, content.feerate, cp_offered.clone(), cp_received.clone())
                                .map(|s| (s, None))
                        })
                    } else {
                        w.with_chan(ci, |ch| {
                            ch.sign_counterparty_commitment_tx_phase2(&point, n, content.feerate, content.to_holder, content.to_cp, cp_offered.clone(), cp_received.clone())
                                .map(|(s, h)| (s, Some(h)))
                        })
                    };
                    st.class(format!("sign:{}", res.tag()));
                    if wire {
                        st.class(format!("wire:sign:{}", res.tag()));
                    }
                    if std::env::var("VERIF_ERRCLASS").is_ok() && res.is_err() {
                        st.class(format!("E:sign:{}", short_err(&res.err_msg())));
                    }
                    shape.push((0, *d, (*sb as u8) * 4 + (*pd + 1) as u8, res.tag()));
                    if trace.len() < 60 {
                        trace.push(json!({"op": op, "n": n, "next_commit": next_commit, "next_revoke": next_revoke, "result": res.tag()}));
                    }
                    if res.is_panic() {
                        dead = true;
                    }
                    if let Out::Ok((sig, hs)) = res {
                        n_signed_ok += 1;
                        // (a) every number below n-1 has an accepted revocation
                        if n >= 2 {
                            for k in 0..(n - 1) {
                                if !revoked.contains_key(&k) {
                                    ctx.report(st, Violation::new(
                                        "C03:signed-over-unrevoked-predecessor",
                                        format!("step {} {:?}: signature for counterparty commitment {} returned while commitment {} has no accepted revocation (revoked={:?})", i, op, n, k, revoked.keys().collect::<Vec<_>>()),
                                    ))?;
                                }
                            }
                        }
                        // (c) re-sign only for identical point and content, same signature
                        if let Some(prev) = signed.get(&n) {
                            if prev.point != point || prev.content != content {
                                ctx.report(st, Violation::new(
                                    "C03:resigned-with-different-point-or-content",
                                    format!("step {} {:?}: commitment {} re-signed; point same={} content same={}", i, op, n, prev.point == point, prev.content == content),
                                ))?;
                            } else if prev.sig != sig || (prev.htlc_sigs.is_some() && hs.is_some() && prev.htlc_sigs != hs) {
                                ctx.report(st, Violation::new(
                                    "C03:resign-returned-different-signature",
                                    format!("step {} {:?}: commitment {} re-signed with identical arguments but a different signature", i, op, n),
                                ))?;
                            }
                            st.class("resign_same_accepted");
                        }
                        // sanity (C04 does this in depth): signature is over the reference tx
                        let m = chan.commitment_sighash(&reftx.trust().built_transaction().transaction);
                        if w.secp.verify_ecdsa(&m, &sig, &chan.holder_pubkeys.funding_pubkey).is_err() {
                            ctx.report(st, Violation::new(
                                "C03:signature-not-over-reference-tx",
                                format!("step {} {:?}: signature for {} does not verify against the reference transaction", i, op, n),
                            ))?;
                        }
                        let keep_h = match (&hs, signed.get(&n)) {
                            (None, Some(p)) => p.htlc_sigs.clone(),
                            _ => hs,
                        };
                        signed.insert(n, SignRec { point, seed_b: *sb, pidx, content: content.clone(), sig, htlc_sigs: keep_h });
                        last_content = Some(content);
                    }
                }
                Op::Revoke { d, sec } => {
                    let k = next_revoke as i64 + *d as i64;
                    if k < 0 {
                        continue;
                    }
                    let k = k as u64;
                    let (sb, pidx) = signed.get(&k).map(|r| (r.seed_b, r.pidx)).unwrap_or((false, k));
                    let s: [u8; 32] = match sec {
                        SecSel::Matching => sec_of(sb, pidx),
                        SecSel::OtherSeed => sec_of(!sb, pidx),
                        SecSel::OtherIndex(o) => sec_of(sb, (pidx as i64 + *o as i64).max(0) as u64),
                        SecSel::Random(b) => Sha256::hash(&[*b, 0x33]).to_byte_array(),
                    };
                    let sk = SecretKey::from_slice(&s).unwrap();
                    let res: Out<()> = if let Some(pw) = pw.as_mut() {
                        let msg = Message::ValidateRevocation(msgs::ValidateRevocation { commitment_number: k, commitment_secret: vls_protocol::model::DisclosedSecret(s) });
                        match pw.request(To::Chan(0), msg) {
                            Out::Ok(_) => Out::Ok(()),
                            Out::Err(e) => Out::Err(e),
                            Out::Panic(p) => Out::Panic(p),
                        }
                    } else {
                        w.with_chan(ci, |ch| ch.validate_counterparty_revocation(k, &sk))
                    };
                    st.class(format!("revoke:{}", res.tag()));
                    if wire {
                        st.class(format!("wire:revoke:{}", res.tag()));
                    }
                    if std::env::var("VERIF_ERRCLASS").is_ok() && res.is_err() {
                        st.class(format!("E:revoke:{}", short_err(&res.err_msg())));
                    }
                    let sk8 = match sec { SecSel::Matching => 0, SecSel::OtherSeed => 1, SecSel::OtherIndex(_) => 2, SecSel::Random(_) => 3 };
                    shape.push((1, *d, sk8, res.tag()));
                    if trace.len() < 60 {
                        trace.push(json!({"op": op, "k": k, "next_commit": next_commit, "next_revoke": next_revoke, "result": res.tag()}));
                    }
                    if res.is_panic() {
                        dead = true;
                    }
                    if res.is_ok() {
                        n_rev_ok += 1;
                        // (b1) point equality with the point signed for k
                        let pk = PublicKey::from_secret_key(&w.secp, &sk);
                        match signed.get(&k) {
                            Some(r) if r.point == pk => {}
                            other => {
                                ctx.report(st, Violation::new(
                                    "C03:revocation-accepted-with-wrong-point",
                                    format!("step {} {:?}: revocation of {} accepted but the secret's point differs from the point signed for it (signed: {})", i, op, k, other.is_some()),
                                ))?;
                            }
                        }
                        // (b2) consistency with every earlier accepted secret in the subtree
                        let idx = MAXI - k;
                        for (k2, s2) in revoked.iter() {
                            let idx2 = MAXI - k2;
                            if *k2 != k && in_subtree(idx, idx2) && derive(s, idx, idx2) != *s2 {
                                ctx.report(st, Violation::new(
                                    "C03:revocation-accepted-breaking-derivation-tree",
                                    format!("step {} {:?}: secret for {} accepted although it does not derive the accepted secret of {}", i, op, k, k2),
                                ))?;
                            }
                            if *k2 == k && *s2 != s {
                                ctx.report(st, Violation::new(
                                    "C03:revocation-retry-accepted-with-different-secret",
                                    format!("step {} {:?}: revocation of {} accepted twice with different secrets", i, op, k),
                                ))?;
                            }
                        }
                        revoked.insert(k, s);
                    } else if res.is_err() {
                        n_rev_refused += 1;
                    }
                }
                Op::Restart => {
                    let r = if let Some(pw) = pw.as_mut() {
                        let r = pw.restart();
                        if r.is_ok() {
                            w.rebind_proto(pw);
                        }
                        r
                    } else {
                        w.restart()
                    };
                    st.class(format!("restart:{}", r.tag()));
                    shape.push((2, 0, 0, r.tag()));
                    if !r.is_ok() {
                        dead = true;
                    }
                }
                Op::Advance { .. } => unreachable!(),
            }
            // at most two signed-unrevoked numbers
            let unrevoked = signed.keys().filter(|n| !revoked.contains_key(n)).count();
            if unrevoked > 2 {
                ctx.report(st, Violation::new(
                    "C03:more-than-two-unrevoked-signed",
                    format!("step {} {:?}: {} signed counterparty commitments are unrevoked", i, op, unrevoked),
                ))?;
            }
        }
        st.sample = Some(json!({"gen": "chan", "anchors": anchors, "outbound": outbound, "trace": trace}));
        st.class("chan_history");
        if signed.values().any(|r| r.seed_b) {
            st.class("chan_history_with_second_seed_point_signed");
        }
        if n_signed_ok >= 3 && n_rev_ok >= 1 && n_rev_refused >= 1 {
            st.nontrivial_shape(("chan", shape));
        }
        Ok(())
    }

    fn run_store(&self, steps: &[StoreOp], st: &mut CaseStats, ctx: &Ctx) -> Result<(), Violation> {
        let seed_a = Sha256::hash(b"vverif/c03/store/A").to_byte_array();
        let seed_b = Sha256::hash(b"vverif/c03/store/B").to_byte_array();
        let mut store = CounterpartyCommitmentSecrets::new();
        // naive reference: every accepted (idx, secret)
        let mut acc: BTreeMap<u64, [u8; 32]> = BTreeMap::new();
        let mut frontier: u64 = MAXI + 1; // min accepted idx (exclusive upper bound of unseen)
        let mut n_acc = 0u32;
        let mut n_rej_after8 = 0u32;
        let mut shape: Vec<(u8, bool)> = vec![];
        let mut poisoned = false; // an inconsistent secret was accepted legitimately (tz=0)

        let mut expanded: Vec<StoreOp> = vec![];
        for s in steps {
            if let StoreOp::RunTrue(k) = s {
                for _ in 0..*k {
                    expanded.push(StoreOp::NextTrue);
                }
            } else {
                expanded.push(s.clone());
            }
        }
        for (i, op) in expanded.iter().enumerate() {
            if frontier == 0 {
                break;
            }
            let next_idx = frontier - 1;
            let (idx, secret, kind): (u64, [u8; 32], u8) = match op {
                StoreOp::NextTrue => (next_idx, build_commitment_secret(&seed_a, next_idx), 0),
                StoreOp::NextOtherSeed => (next_idx, build_commitment_secret(&seed_b, next_idx), 1),
                StoreOp::NextWrongIndex(o) => {
                    let j = (next_idx as i64 + *o as i64).clamp(0, MAXI as i64) as u64;
                    (next_idx, build_commitment_secret(&seed_a, j), 2)
                }
                StoreOp::NextCorrupt(b) => {
                    let mut s = build_commitment_secret(&seed_a, next_idx);
                    s[(*b as usize / 8) % 32] ^= 1 << (*b % 8);
                    (next_idx, s, 3)
                }
                StoreOp::RetrySame(back) => {
                    let j = frontier.saturating_add(*back as u64);
                    match acc.get(&j) {
                        Some(s) => (j, *s, 4),
                        None => continue,
                    }
                }
                StoreOp::Get(rel) => {
                    let j = frontier as i64 - 1 + *rel as i64;
                    if j < 0 || j > MAXI as i64 {
                        continue;
                    }
                    let j = j as u64;
                    let r = call(|| Ok(store.get_secret(j)));
                    match r {
                        Out::Ok(got) => {
                            if j >= frontier {
                                // must be known and equal the accepted secret
                                let exp = acc.get(&j).cloned();
                                if !poisoned && got != exp {
                                    ctx.report(st, Violation::new(
                                        "C03:store-get-secret-wrong",
                                        format!("step {}: get_secret({:#x}) = {:?}, accepted {:?}", i, j, got.map(hex::encode), exp.map(hex::encode)),
                                    ))?;
                                }
                            } else if got.is_some() {
                                ctx.report(st, Violation::new(
                                    "C03:store-knows-unprovided-secret",
                                    format!("step {}: get_secret({:#x}) below the minimum returned a value", i, j),
                                ))?;
                            }
                        }
                        Out::Panic(p) => {
                            ctx.report(st, Violation::new("C03:store-get-panic", format!("step {}: get_secret({:#x}) panicked: {}", i, j, p)))?;
                        }
                        Out::Err(_) => {}
                    }
                    continue;
                }
                StoreOp::RunTrue(_) => unreachable!(),
            };
            let r = store.provide_secret(idx, secret);
            shape.push((kind, r.is_ok()));
            if r.is_ok() {
                // Ok => consistent with every accepted secret in idx's subtree
                for (j, sj) in acc.iter() {
                    if *j != idx && in_subtree(idx, *j) && derive(secret, idx, *j) != *sj {
                        ctx.report(st, Violation::new(
                            "C03:store-accepted-inconsistent-secret",
                            format!("step {} {:?}: provide_secret({:#x}) accepted although it does not derive the accepted secret at {:#x}", i, op, idx, j),
                        ))?;
                    }
                }
                if idx < frontier {
                    if secret != build_commitment_secret(&seed_a, idx) {
                        // legitimately accepted (nothing to check it against yet): later true
                        // secrets may now be refused; get-equality is no longer demanded
                        poisoned = true;
                    }
                    acc.insert(idx, secret);
                    frontier = idx;
                    n_acc += 1;
                    // every accepted secret must still be readable
                    if !poisoned {
                        for (j, sj) in acc.iter().rev().take(12) {
                            let g = store.get_secret(*j);
                            if g != Some(*sj) {
                                ctx.report(st, Violation::new(
                                    "C03:store-get-secret-wrong",
                                    format!("step {} after accepting {:#x}: get_secret({:#x}) = {:?} expected {}", i, idx, j, g.map(hex::encode), hex::encode(sj)),
                                ))?;
                            }
                        }
                    }
                }
            } else {
                if n_acc >= 8 {
                    n_rej_after8 += 1;
                }
                if kind == 0 && !poisoned {
                    st.class("store_refused_true_next_secret(over-refusal, counted)");
                }
            }
        }
        st.class("store_sequence");
        st.sample = Some(json!({"gen": "store", "steps": steps, "accepted": n_acc}));
        if n_rej_after8 >= 1 {
            st.nontrivial_shape(("store", shape));
        }
        Ok(())
    }
}

impl Prop for C03 {
    type Case = Case;
    fn id(&self) -> &'static str {
        "C03"
    }
    fn rule(&self) -> String {
        "G1: histories (<=45 quick / <=120 thorough primitive requests) of sign_counterparty_commitment_tx (phase 1 and 2) for number \
         next_commit+d with a point from one of two commitment seeds (index n or n+-1) and same/add/remove/fresh content, \
         validate_counterparty_revocation(next_revoke+d, matching / other-seed / other-index / random secret), the normal sign+revoke step, \
         restarts; counters are only reached by real requests. Oracle: ledger of signatures returned and revocations accepted: (a) a \
         signature for n implies every number < n-1 revoked, <=2 signed-unrevoked; (b) accepted revocation => secret's point equals the \
         point signed for that number and derives every earlier accepted secret in its BOLT-3 subtree (independent derivation); (c) re-sign \
         only for identical point and content, identical signature; signature verifies against the harness-built transaction. \
         G2: sequences fed to CounterpartyCommitmentSecrets in the shape the channel feeds it (contiguous descending indices from 2^48-1, \
         true / second-seed / wrong-index / one-bit-corrupted secrets, right-secret retries, reads), runs of up to 69 true secrets to cross \
         bit boundaries; Ok => derives all accepted secrets in its subtree; accepted secrets stay readable; nothing below the minimum. \
         Non-trivial: G1 >=3 signatures and >=1 accepted and >=1 refused revocation; G2 >=1 rejection after >=8 accepted inserts."
            .into()
    }
    fn assumptions(&self) -> Vec<String> {
        vec![
            "store sequences are restricted to what validate_counterparty_revocation can feed: contiguous indices and retries with the already accepted secret (the point check precedes the store)".into(),
            "reference transactions built with LDK builders".into(),
        ]
    }
    fn cases(&self, tier: Tier) -> u32 {
        tier.pick(900, 5000)
    }
    fn strategy(&self, tier: Tier) -> BoxedStrategy<Case> {
        let n = tier.pick(30usize, 80usize);
        let m = tier.pick(40usize, 150usize);
        prop_oneof![
            3 => (any::<bool>(), any::<bool>(), proptest::collection::vec(op_strat(), 1..n), prop::bool::weighted(0.4), prop::bool::weighted(0.15), prop::bool::weighted(0.4))
                .prop_map(|(anchors, outbound, ops, onchain, carve_out, wire)| Case::Chan { anchors, outbound, ops, onchain, carve_out, wire: wire && !onchain }),
            2 => proptest::collection::vec(store_op_strat(), 1..m).prop_map(|steps| Case::Store { steps }),
        ]
        .boxed()
    }
    fn run(&self, case: &Case, st: &mut CaseStats, ctx: &Ctx) -> Result<(), Violation> {
        match case {
            Case::Chan { anchors, outbound, ops, onchain, carve_out, wire } => self.run_chan(*anchors, *outbound, *onchain, *carve_out, *wire, ops, st, ctx),
            Case::Store { steps } => self.run_store(steps, st, ctx),
        }
    }
    fn min_nontrivial(&self, tier: Tier) -> usize {
        tier.pick(100, 1000)
    }
}
