//! C08 — on-chain spends lose at most a bounded fee and fund only validated channels.
//!
//! Transactions are assembled from *labelled* pieces so the ground truth is known by
//! construction.  Ok ⇒ reference predicate; Err(UnknownDestinations(I)) ⇒ I is exactly the set
//! of outputs labelled unknown.

use crate::engine::*;
use crate::props::holder::{finish_content, short_err};
use crate::world::*;
use lightning_signer::bitcoin;
use lightning_signer::bitcoin::absolute::LockTime;
use lightning_signer::bitcoin::bip32::{ChildNumber, DerivationPath, Xpriv, Xpub};
use lightning_signer::bitcoin::hashes::Hash;
use lightning_signer::bitcoin::key::UntweakedPublicKey;
use lightning_signer::bitcoin::secp256k1::{PublicKey, SecretKey};
use lightning_signer::bitcoin::transaction::Version;
use lightning_signer::bitcoin::{Address, Amount, CompressedPublicKey, Network, OutPoint, ScriptBuf, Sequence, Transaction, TxIn, TxOut, Txid, Witness};
use lightning_signer::policy::error::ValidationErrorKind;
use lightning_signer::util::clock::Clock;
use lightning_signer::util::velocity::{VelocityControlIntervalType, VelocityControlSpec};
use proptest::prelude::*;
use serde::{Deserialize, Serialize};
use serde_json::json;
use vls_protocol_signer::approver::{Approve, NegativeApprover};

#[derive(Clone, Debug, Serialize, Deserialize, PartialEq, Eq, Hash)]
pub enum InKind {
    WalletP2wpkh,
    WalletP2sh,
    WalletP2tr,
    WalletP2pkh,
    ForeignP2wsh,
    ForeignOther,
    /// spends a unilateral-close output: a close key and witness stack suffix are supplied
    UniClose { stack_len: u8 },
}

#[derive(Clone, Debug, Serialize, Deserialize, PartialEq, Eq, Hash)]
pub enum ValSel {
    Small(u32),
    Pow32Mult { k: u8, r: u32 },
    Huge,
    NearMax,
}

#[derive(Clone, Debug, Serialize, Deserialize, PartialEq, Eq, Hash)]
pub struct InGen {
    pub kind: InKind,
    pub val: ValSel,
    /// the segwit flag given for this input: Some(x) forces, None = truthful
    pub flag_override: Option<bool>,
}

#[derive(Clone, Debug, Serialize, Deserialize, PartialEq, Eq, Hash)]
pub enum OutKind {
    WalletP2wpkh,
    WalletP2sh,
    WalletP2tr,
    WalletWrongPath,
    Allowlisted,
    XpubDerived,
    XpubWrongPath,
    /// funding output of channel slot c (0..2)
    Channel { c: u8, value_delta: i8, script_ok: bool },
    /// foreign script, no path
    Unknown,
    /// foreign script with a path hint
    UnknownWithPath,
    /// an address of the node's own wallet (right path) that is also on the allowlist: beneficial
    /// once, however many reasons there are for it
    WalletAndAllowlisted,
}

#[derive(Clone, Debug, Serialize, Deserialize, PartialEq, Eq, Hash)]
pub struct OutGen {
    pub kind: OutKind,
    /// share of the distributable value (weights)
    pub weight: u8,
}

#[derive(Clone, Debug, Serialize, Deserialize, PartialEq, Eq, Hash)]
pub struct ChanGen {
    pub outbound: bool,
    pub push: bool,
    /// initial holder commitment validated (counter-signed) before the funding tx is checked
    pub validated: bool,
    /// ... and additionally advanced beyond 1
    pub value_sel: u8,
}

#[derive(Clone, Debug, Serialize, Deserialize, PartialEq, Eq, Hash)]
pub enum FeeSel {
    Rate(u32),
    MaxRate(i8),
    Pow32 { k: u8, r: u32 },
    Negative(u32),
    Zero,
}

#[derive(Clone, Debug, Serialize, Deserialize)]
pub struct Case {
    pub version: u8,
    pub inputs: Vec<InGen>,
    pub outputs: Vec<OutGen>,
    pub chans: Vec<ChanGen>,
    pub fee: FeeSel,
    pub fee_velocity_sat: Option<u32>,
    pub max_feerate: u32,
    /// repeat the same kind of transaction this many times (velocity accumulation)
    pub repeats: u8,
    pub via_approver: bool,
    /// with via_approver: the approver approves unknown destinations (what an operator's explicit
    /// approval does); everything but the unknown-destination rule must then still hold
    #[serde(default)]
    pub approving: bool,
    pub big_tx: bool,
    /// retry storm: after `gap_after` repeats the clock moves on by 65 minutes (one bucket of the
    /// daily control) and the same transaction is retried `extra` more times without any further
    /// delay; only for transactions without channel outputs
    #[serde(default)]
    pub storm: Option<(u8, u8)>,
    /// the signer is restarted from the store before this repeat (0 = never)
    #[serde(default)]
    pub restart_before: u8,
    /// allowlist edit history before the first transaction (world::allowlist_edit; 0 = none):
    /// afterwards the plainly allowlisted address is an unknown destination
    #[serde(default)]
    pub allow_edit: u8,
    /// wire group: the transaction (outputs, channels, fee, policy of this case; inputs of the
    /// WireGen) is requested as a SignWithdrawal message through the protocol handler
    #[serde(default)]
    pub wire: Option<WireGen>,
    /// API group: the signer runs with the validator factory vlsd uses by default
    /// (OnchainValidatorFactory around the simple validator with this case's policy)
    #[serde(default)]
    pub onchain: bool,
    /// start-up allowlist scenario (wire): a signer whose HandlerBuilder was given a start-up
    /// allowlist with one address ("only used if node is new"), (protocol selector, run-time
    /// edit: 0 none, 1 remove [A], 2 remove [A, absent], 3 remove [absent, A], number of restarts
    /// with the same start-up configuration 0..2), then a SignWithdrawal paying everything to A
    #[serde(default)]
    pub startup: Option<(u8, u8, u8)>,
}

/// Input of a wire-group transaction, as CLN's / LDK's hsmd client describes it.
#[derive(Clone, Debug, Serialize, Deserialize, PartialEq, Eq, Hash)]
pub enum WInKind {
    /// wallet inputs: a utxo entry with the key index
    WalletP2wpkh,
    /// ... additionally is_p2sh and the redeem script in the PSBT input
    WalletP2sh,
    WalletP2tr,
    /// the to-remote output of the counterparty's commitment of a closed channel: utxo entry with
    /// close_info without commitment point (p2wpkh, or p2wsh with anchors)
    CloseToRemote { anchors: bool },
    /// the delayed to-local output of the holder's commitment: close_info with the commitment point
    CloseDelayed { anchors: bool },
    /// somebody else's inputs (no utxo entry, never signed): native segwit / legacy
    ForeignP2wpkh,
    ForeignP2pkh,
    /// somebody else's legacy (p2pkh) output which the PSBT describes by a `witness_utxo` alone
    /// that claims a p2wpkh script for the same key: a node the signer does not trust can say so,
    /// and only the previous transaction (which it withholds) could show otherwise.  The input
    /// is not segwit, so a transaction with it must not fund a channel.
    ForeignMisdescribed,
}

/// Which previous-output data the PSBT input carries.
#[derive(Clone, Debug, Serialize, Deserialize, PartialEq, Eq, Hash)]
pub enum UtxoData {
    WitnessOnly,
    NonWitnessOnly,
    Both,
    /// the PSBT input carries neither (and the request has no utxo entry for it): the node hides
    /// what the input is worth.  Its value goes to the miners (the outputs are sized from the
    /// other inputs).
    Neither,
}

#[derive(Clone, Debug, Serialize, Deserialize, PartialEq, Eq, Hash)]
pub struct WInGen {
    pub kind: WInKind,
    pub data: UtxoData,
    pub val: ValSel,
}

#[derive(Clone, Debug, Serialize, Deserialize, PartialEq, Eq, Hash)]
pub struct WireGen {
    /// protocol version 4 + pver % 3
    pub pver: u8,
    /// the version is capped by the node's offer instead of the signer's maximum
    pub node_cap: bool,
    pub inputs: Vec<WInGen>,
    /// bit i set: the PSBT output i carries no derivation (a wallet destination then is unknown)
    pub withhold_path: u8,
    /// every channel of the case is taken as outbound, without push and with a counter-signed
    /// initial commitment, every funding output as exact (more transactions that really fund
    /// channels)
    #[serde(default)]
    pub good_chans: bool,
}

/// weight of an input (ground truth, for the oracle) that the request does not describe
fn hidden_input(val: ValSel) -> WInGen {
    WInGen { kind: WInKind::ForeignP2wpkh, data: UtxoData::Neither, val }
}

fn val_strat() -> impl Strategy<Value = ValSel> {
    prop_oneof![
        // large enough to fund the channels of the case most of the time
        10 => (100_000u32..30_000_000).prop_map(ValSel::Small),
        2 => (1u8..4, prop_oneof![Just(0u32), Just(1000u32), any::<u32>()]).prop_map(|(k, r)| ValSel::Pow32Mult { k, r }),
        1 => Just(ValSel::Huge), 1 => Just(ValSel::NearMax),
    ]
}

fn val_of(v: &ValSel) -> u64 {
    match v {
        ValSel::Small(v) => *v as u64,
        ValSel::Pow32Mult { k, r } => ((*k as u64) << 32) + *r as u64,
        ValSel::Huge => 1 << 50,
        ValSel::NearMax => u64::MAX / 2 + 5,
    }
}

fn wire_strat() -> impl Strategy<Value = WireGen> {
    let mixed = (
        prop_oneof![
            6 => Just(WInKind::WalletP2wpkh), 2 => Just(WInKind::WalletP2sh), 3 => Just(WInKind::WalletP2tr),
            2 => any::<bool>().prop_map(|anchors| WInKind::CloseToRemote { anchors }), 1 => any::<bool>().prop_map(|anchors| WInKind::CloseDelayed { anchors }),
            1 => Just(WInKind::ForeignP2wpkh), 1 => Just(WInKind::ForeignP2pkh),
        ],
        prop_oneof![2 => Just(UtxoData::WitnessOnly), 3 => Just(UtxoData::NonWitnessOnly), 5 => Just(UtxoData::Both)],
        val_strat(),
    )
        .prop_map(|(kind, data, val)| WInGen { kind, data, val });
    // inputs a channel can be funded from: native segwit, described by the previous transaction
    let funding_grade = (
        prop_oneof![
            6 => Just(WInKind::WalletP2wpkh), 3 => Just(WInKind::WalletP2tr),
            2 => any::<bool>().prop_map(|anchors| WInKind::CloseToRemote { anchors }), 1 => any::<bool>().prop_map(|anchors| WInKind::CloseDelayed { anchors }),
            1 => Just(WInKind::ForeignP2wpkh),
        ],
        prop_oneof![2 => Just(UtxoData::NonWitnessOnly), 3 => Just(UtxoData::Both)],
        val_strat(),
    )
        .prop_map(|(kind, data, val)| WInGen { kind, data, val })
        .boxed();
    // ... next to exactly one legacy input of somebody else (described in any of the three ways)
    let with_legacy = (
        proptest::collection::vec(funding_grade.clone(), 0..3),
        prop_oneof![2 => Just(UtxoData::WitnessOnly), 1 => Just(UtxoData::NonWitnessOnly), 1 => Just(UtxoData::Both)],
        val_strat(),
        any::<bool>(),
    )
        .prop_map(|(mut v, data, val, first)| {
            let g = if data == UtxoData::WitnessOnly && !first { WInGen { kind: WInKind::ForeignMisdescribed, data, val } } else { WInGen { kind: WInKind::ForeignP2pkh, data, val } };
            if first {
                v.insert(0, g);
            } else {
                v.push(g);
            }
            v
        });
    let inputs = prop_oneof![6 => proptest::collection::vec(mixed, 1..4), 4 => proptest::collection::vec(funding_grade, 1..4), 2 => with_legacy];
    (0u8..3, any::<bool>(), inputs, prop_oneof![3 => Just(0u8), 1 => any::<u8>()], prop::bool::weighted(0.4), prop_oneof![9 => Just(None), 1 => val_strat().prop_map(Some)])
        .prop_map(|(pver, node_cap, mut inputs, withhold_path, good_chans, hidden)| {
            if let Some(v) = hidden {
                inputs.push(hidden_input(v));
            }
            WireGen { pver, node_cap, inputs, withhold_path, good_chans }
        })
}

fn in_strat() -> impl Strategy<Value = InGen> {
    (
        prop_oneof![
            6 => Just(InKind::WalletP2wpkh), 2 => Just(InKind::WalletP2sh), 2 => Just(InKind::WalletP2tr), 1 => Just(InKind::WalletP2pkh),
            1 => Just(InKind::ForeignP2wsh), 1 => Just(InKind::ForeignOther), 2 => (0u8..3).prop_map(|stack_len| InKind::UniClose { stack_len }),
        ],
        prop_oneof![
            10 => (10_000u32..5_000_000).prop_map(ValSel::Small),
            2 => (1u8..4, prop_oneof![Just(0u32), Just(1000u32), any::<u32>()]).prop_map(|(k, r)| ValSel::Pow32Mult { k, r }),
            1 => Just(ValSel::Huge), 1 => Just(ValSel::NearMax),
        ],
        prop_oneof![12 => Just(None), 1 => Just(Some(false)), 1 => Just(Some(true))],
    )
        .prop_map(|(kind, val, flag_override)| InGen { kind, val, flag_override })
}

fn out_strat() -> impl Strategy<Value = OutGen> {
    (
        prop_oneof![
            6 => Just(OutKind::WalletP2wpkh), 2 => Just(OutKind::WalletP2sh), 2 => Just(OutKind::WalletP2tr), 1 => Just(OutKind::WalletWrongPath),
            3 => Just(OutKind::Allowlisted), 2 => Just(OutKind::XpubDerived), 1 => Just(OutKind::XpubWrongPath),
            8 => (0u8..3, prop_oneof![10 => Just(0i8), 1 => Just(1i8), 1 => Just(-1i8)], prop::bool::weighted(0.9)).prop_map(|(c, value_delta, script_ok)| OutKind::Channel { c, value_delta, script_ok }),
            3 => Just(OutKind::Unknown), 1 => Just(OutKind::UnknownWithPath), 3 => Just(OutKind::WalletAndAllowlisted),
        ],
        1u8..10,
    )
        .prop_map(|(kind, weight)| OutGen { kind, weight })
}

fn chan_strat() -> impl Strategy<Value = ChanGen> {
    (prop::bool::weighted(0.85), prop::bool::weighted(0.12), prop::bool::weighted(0.85), 0u8..3).prop_map(|(outbound, push, validated, value_sel)| ChanGen { outbound, push, validated, value_sel })
}

pub struct C08;

fn path_of(idx: u32) -> DerivationPath {
    vec![ChildNumber::from_normal_idx(idx).unwrap()].into()
}


// ---------------------------------------------------------------------------------------------
// wire group

/// Negative approver (the explicit approval of unknown destinations is outside the oracle) that
/// records which outputs it was asked about.
struct RecordingApprover {
    asked: std::sync::Arc<std::sync::Mutex<Vec<Vec<usize>>>>,
}

impl lightning_signer::SendSync for RecordingApprover {}

impl Approve for RecordingApprover {
    fn approve_invoice(&self, _invoice: &lightning_signer::invoice::Invoice) -> bool {
        false
    }
    fn approve_keysend(&self, _payment_hash: lightning_signer::lightning::types::payment::PaymentHash, _amount_msat: u64) -> bool {
        false
    }
    fn approve_onchain(&self, _tx: &Transaction, _prev_outs: &[TxOut], unknown_indices: &[usize]) -> bool {
        self.asked.lock().unwrap().push(unknown_indices.to_vec());
        false
    }
}

/// What the witness of a signed input has to look like.
enum Expect {
    /// not ours: no signature expected
    Foreign,
    /// [sig, pubkey] over the p2wpkh script of the key (also when wrapped in p2sh)
    Wpkh { pk: PublicKey, nested: bool },
    /// [sig] by the tweaked key
    Tr { internal: PublicKey },
    /// [sig, suffix...] over the last element of the suffix
    Wsh { pk: PublicKey, suffix: Vec<Vec<u8>> },
}

fn verify_wire_input(
    secp: &bitcoin::secp256k1::Secp256k1<bitcoin::secp256k1::All>,
    tx: &Transaction,
    prev_outs: &[TxOut],
    i: usize,
    exp: &Expect,
    inp: &bitcoin::psbt::Input,
    net: Network,
) -> Result<(), &'static str> {
    use bitcoin::key::TapTweak;
    use bitcoin::secp256k1::Message as SMsg;
    use bitcoin::sighash::{EcdsaSighashType, Prevouts, SighashCache, TapSighashType};
    let value = prev_outs[i].value;
    let wit: Vec<Vec<u8>> = match (&inp.final_script_witness, exp) {
        (_, Expect::Foreign) => return Ok(()),
        (None, _) => return Err("input-not-signed"),
        (Some(w), _) => w.to_vec(),
    };
    if wit.is_empty() {
        return Err("input-not-signed");
    }
    let mut cache = SighashCache::new(tx);
    let ecdsa_ok = |digest: [u8; 32], sig: &[u8], pk: &PublicKey| -> bool {
        match bitcoin::ecdsa::Signature::from_slice(sig) {
            Ok(s) => s.sighash_type == EcdsaSighashType::All && secp.verify_ecdsa(&SMsg::from_digest(digest), &s.signature, pk).is_ok(),
            Err(_) => false,
        }
    };
    match exp {
        Expect::Foreign => Ok(()),
        Expect::Wpkh { pk, nested } => {
            if wit.len() != 2 || wit[1] != pk.serialize().to_vec() {
                return Err("witness-stack-wrong");
            }
            let code = Address::p2wpkh(&CompressedPublicKey(*pk), net).script_pubkey();
            let h = cache.p2wpkh_signature_hash(i, &code, value, EcdsaSighashType::All).map_err(|_| "sighash")?;
            if !ecdsa_ok(h.to_byte_array(), &wit[0], pk) {
                return Err("signature-does-not-verify");
            }
            if *nested {
                let mut pb = bitcoin::script::PushBytesBuf::new();
                pb.extend_from_slice(code.as_bytes()).map_err(|_| "push")?;
                let want = bitcoin::script::Builder::new().push_slice(&pb).into_script();
                if inp.final_script_sig.as_ref() != Some(&want) {
                    return Err("p2sh-script-sig-wrong");
                }
            }
            Ok(())
        }
        Expect::Tr { internal } => {
            if wit.len() != 1 {
                return Err("witness-stack-wrong");
            }
            let (tweaked, _) = UntweakedPublicKey::from(*internal).tap_tweak(secp, None);
            let h = cache.taproot_key_spend_signature_hash(i, &Prevouts::All(prev_outs), TapSighashType::Default).map_err(|_| "sighash")?;
            let sig = bitcoin::taproot::Signature::from_slice(&wit[0]).map_err(|_| "signature-does-not-verify")?;
            if sig.sighash_type != TapSighashType::Default || secp.verify_schnorr(&sig.signature, &SMsg::from_digest(h.to_byte_array()), &tweaked.to_inner()).is_err() {
                return Err("signature-does-not-verify");
            }
            Ok(())
        }
        Expect::Wsh { pk, suffix } => {
            if wit.len() != 1 + suffix.len() || wit[1..] != suffix[..] {
                return Err("witness-stack-wrong");
            }
            let code = ScriptBuf::from(suffix[suffix.len() - 1].clone());
            let h = cache.p2wsh_signature_hash(i, &code, value, EcdsaSighashType::All).map_err(|_| "sighash")?;
            if !ecdsa_ok(h.to_byte_array(), &wit[0], pk) {
                return Err("signature-does-not-verify");
            }
            Ok(())
        }
    }
}

/// first policy tag of a refusal message, or its shortened text
fn refusal_reason(msg: &str) -> String {
    if msg.contains("unapproved destination") {
        return "unapproved-destination".into();
    }
    if let Some(p) = msg.find("policy-") {
        return msg[p..].chars().take_while(|c| c.is_ascii_alphanumeric() || *c == '-').collect();
    }
    short_err(msg)
}

impl C08 {
    /// Start-up allowlist scenario (see Case::startup).
    fn run_startup(&self, pv: u8, edit: u8, restarts: u8, st: &mut CaseStats, ctx: &Ctx) -> Result<(), Violation> {
        use crate::props::proto::{Negotiation, ProtoWorld, To};
        use bitcoin::psbt::Psbt;
        use vls_protocol::model::Utxo;
        use vls_protocol::msgs::{self, Message};
        use vls_protocol::psbt::StreamedPSBT;
        use vls_protocol::serde_bolt::{Array, Octets, WithSize};
        let net = Network::Testnet;
        let secp = bitcoin::secp256k1::Secp256k1::new();
        let cfg = WorldCfg::default_testnet();
        let a = Address::p2wpkh(&CompressedPublicKey(PublicKey::from_secret_key(&secp, &SecretKey::from_slice(&[0x61; 32]).unwrap())), net);
        let absent = Address::p2wpkh(&CompressedPublicKey(PublicKey::from_secret_key(&secp, &SecretKey::from_slice(&[0x62; 32]).unwrap())), net);
        let (ea, eb) = (format!("address:{}", a), format!("address:{}", absent));
        let pver = 4 + (pv % 3) as u32;
        let mut pw = ProtoWorld::new_configured(cfg, pver, Negotiation::SignerCap, vec![ea.clone()], true);
        let listed = |pw: &ProtoWorld| pw.node().allowlist().map(|l| l.contains(&ea)).unwrap_or(false);
        if !listed(&pw) {
            // harness precondition: a new node takes the start-up allowlist
            return ctx.report(st, Violation::new("C08:wire:startup-allowlist:not-installed-on-new-node", "the start-up allowlist of a new node was not installed".to_string()));
        }
        let edit = edit % 4;
        let node = pw.node().clone();
        let r = match edit {
            0 => Ok(()),
            1 => node.remove_allowlist(&[ea.clone()]),
            2 => node.remove_allowlist(&[ea.clone(), eb.clone()]),
            _ => node.remove_allowlist(&[eb.clone(), ea.clone()]),
        };
        if r.is_err() {
            st.class("startup:removal-refused");
            return Ok(());
        }
        let restarts = restarts % 3;
        for _ in 0..restarts {
            if !pw.restart().is_ok() {
                st.class("startup:restart-failed");
                return Ok(());
            }
        }
        st.class(format!("startup:edit{}:restarts{}", edit, restarts));
        // one wallet coin, everything but the fee to A
        let keyindex = 3u32;
        let wxpub = pw.node().get_account_extended_pubkey();
        let pk = CompressedPublicKey(wxpub.derive_pub(&secp, &path_of(keyindex)).unwrap().public_key);
        let spk = Address::p2wpkh(&pk, net).script_pubkey();
        let v = 100_000u64;
        let prev_tx = Transaction {
            version: Version::TWO,
            lock_time: LockTime::ZERO,
            input: vec![TxIn { previous_output: OutPoint { txid: Txid::from_byte_array([0xc9; 32]), vout: 0 }, script_sig: ScriptBuf::new(), sequence: Sequence::MAX, witness: Witness::new() }],
            output: vec![TxOut { value: Amount::from_sat(v), script_pubkey: spk.clone() }],
        };
        let tx = Transaction {
            version: Version::TWO,
            lock_time: LockTime::ZERO,
            input: vec![TxIn { previous_output: OutPoint { txid: prev_tx.compute_txid(), vout: 0 }, script_sig: ScriptBuf::new(), sequence: Sequence::MAX, witness: Witness::new() }],
            output: vec![TxOut { value: Amount::from_sat(v - 500), script_pubkey: a.script_pubkey() }],
        };
        let mut psbt = Psbt::from_unsigned_tx(tx).expect("unsigned tx");
        psbt.inputs[0].witness_utxo = Some(prev_tx.output[0].clone());
        psbt.inputs[0].non_witness_utxo = Some(prev_tx.clone());
        let utxo = Utxo { txid: prev_tx.compute_txid(), outnum: 0, amount: v, keyindex, is_p2sh: false, script: Octets(spk.as_bytes().to_vec()), close_info: None, is_in_coinbase: false };
        let msg = Message::SignWithdrawal(msgs::SignWithdrawal { utxos: Array(vec![utxo]), psbt: WithSize(StreamedPSBT::new(psbt)) });
        let rep = pw.request(To::Root, msg);
        let signed = match &rep {
            Out::Ok(r) => r.as_any().downcast_ref::<msgs::SignWithdrawalReply>().is_some(),
            _ => false,
        };
        st.class(format!("startup:{}:{}", if edit == 0 { "still-allowlisted" } else { "removed" }, if signed { "signed" } else { rep.tag() }));
        if edit != 0 {
            st.nontrivial_shape(("startup", edit, restarts, pver));
            if signed {
                return ctx.report(st, Violation::new(
                    format!("C08:wire:startup-allowlist:removed-destination-signed{}", if restarts > 0 { "-after-restart" } else { "" }),
                    format!("a destination removed from the allowlist at run time (edit {}) was paid 99 500 sat by a signed withdrawal after {} restart(s) with the same start-up configuration, although unknown destinations are declined (allowlist now {:?})", edit, restarts, pw.node().allowlist().unwrap_or_default()),
                ));
            }
        } else if signed {
            st.nontrivial_shape(("startup-control", restarts, pver));
        }
        Ok(())
    }

    /// Wire group: the labelled transaction is requested as SignWithdrawal (utxos + streamed
    /// PSBT) from a signer built like vlsd's; the ground truth is the same as at API level.
    fn run_wire(&self, case: &Case, wg: &WireGen, st: &mut CaseStats, ctx: &Ctx) -> Result<(), Violation> {
        use crate::props::proto::{validate_msg, Negotiation, ProtoWorld, To};
        use bitcoin::bip32::{Fingerprint, KeySource};
        use bitcoin::psbt::Psbt;
        use bitcoin::secp256k1::XOnlyPublicKey;
        use lightning_signer::lightning::ln::chan_utils::{get_revokeable_redeemscript, get_to_countersignatory_with_anchors_redeemscript};
        use lightning_signer::prelude::Arc as PArc;
        use vls_protocol::model::{self, CloseInfo, PubKey, Utxo};
        use vls_protocol::msgs::{self, Message};
        use vls_protocol::psbt::StreamedPSBT;
        use vls_protocol::serde_bolt::{Array, Octets, WithSize};
        use vls_protocol_signer::handler::InitHandler;

        let net = Network::Testnet;
        let mut cfg = WorldCfg::default_testnet();
        cfg.policy.max_feerate_per_kw = case.max_feerate;
        cfg.policy.fee_velocity_control = match case.fee_velocity_sat {
            Some(l) => VelocityControlSpec { limit_msat: l as u64 * 1000, interval_type: VelocityControlIntervalType::Daily },
            None => VelocityControlSpec::UNLIMITED,
        };
        let pver = 4 + (wg.pver % 3) as u32;
        let mut pw = ProtoWorld::new(cfg.clone(), pver, if wg.node_cap { Negotiation::NodeCap } else { Negotiation::SignerCap });
        let secp = pw.secp.clone();
        // The same node behind a root handler with a declining approver: what HandlerBuilder::build
        // does with `.approver(..)` (InitHandler::new over the node), then the HsmdInit handshake.
        let asked = std::sync::Arc::new(std::sync::Mutex::new(Vec::<Vec<usize>>::new()));
        {
            let (signer_max, node_max) = if wg.node_cap { (msgs::DEFAULT_MAX_PROTOCOL_VERSION, pver) } else { (pver, msgs::DEFAULT_MAX_PROTOCOL_VERSION) };
            let mut init = InitHandler::new(0, pw.node().clone(), PArc::new(RecordingApprover { asked: asked.clone() }), signer_max);
            let m = Message::HsmdInit(msgs::HsmdInit {
                key_version: model::Bip32KeyVersion { pubkey_version: 0x0488b21e, privkey_version: 0x0488ade4 },
                chain_params: bitcoin::blockdata::constants::genesis_block(net).block_hash(),
                encryption_key: None,
                dev_privkey: None,
                dev_bip32_seed: None,
                dev_channel_secrets: None,
                dev_channel_secrets_shaseed: None,
                hsm_wire_min_version: msgs::MIN_PROTOCOL_VERSION,
                hsm_wire_max_version: node_max,
            });
            let m = msgs::from_vec(m.inner().as_vec()).expect("init message survives the wire");
            let (done, reply) = init.handle(m).expect("handshake");
            assert!(done);
            let reply = reply.expect("handshake reply");
            let r = reply.as_any().downcast_ref::<msgs::HsmdInitReplyV4>().expect("HsmdInitReplyV4");
            assert_eq!(r.hsm_version, pver, "negotiated protocol version");
            pw.root = init.into();
        }
        st.class(format!("wire:v{}", pver));

        let wxpub = pw.node().get_account_extended_pubkey();
        let fp: Fingerprint = wxpub.fingerprint();
        let wpk = |idx: u32| -> PublicKey { wxpub.derive_pub(&secp, &path_of(idx)).unwrap().public_key };
        let wallet_scripts = |idx: u32| -> [ScriptBuf; 3] {
            let pk = CompressedPublicKey(wpk(idx));
            [Address::p2wpkh(&pk, net).script_pubkey(), Address::p2shwpkh(&pk, net).script_pubkey(), Address::p2tr(&secp, UntweakedPublicKey::from(pk.0), None, net).script_pubkey()]
        };
        let allow_pk = CompressedPublicKey(PublicKey::from_secret_key(&secp, &SecretKey::from_slice(&[9u8; 32]).unwrap()));
        let allow_addr = Address::p2wpkh(&allow_pk, net);
        let axpub = Xpub::from_priv(&secp, &Xpriv::new_master(net, &[7u8; 32]).unwrap());
        let mut allow_entries = vec![format!("address:{}", allow_addr), format!("xpub:{}", axpub)];
        for idx in 90u32..96 {
            allow_entries.push(format!("address:{}", Address::p2wpkh(&CompressedPublicKey(wpk(idx)), net)));
        }
        pw.node().add_allowlist(&allow_entries).expect("allowlist");
        let foreign_pk = |b: u8| CompressedPublicKey(PublicKey::from_secret_key(&secp, &SecretKey::from_slice(&[b; 32]).unwrap()));
        let foreign = |i: u8| Address::p2wpkh(&foreign_pk(40 + i), net).script_pubkey();

        // --- inputs -------------------------------------------------------------------------
        struct InFact {
            prev_tx: Transaction,
            vout: u32,
            utxo: Option<Utxo>,
            redeem_script: Option<ScriptBuf>,
            expect: Expect,
            truly_segwit: bool,
            sequence: Sequence,
        }
        let mut ins: Vec<InFact> = vec![];
        let mut weight_extra: u128 = 0;
        let mut sum_true: u128 = 0;
        let mut sum_in: u128 = 0;
        for (i, g) in wg.inputs.iter().enumerate() {
            let v = val_of(&g.val);
            let keyindex = 20 + i as u32;
            let mut close: Option<CloseInfo> = None;
            let mut sequence = Sequence::MAX;
            let mut wit_len: u128 = 33;
            let (spk, expect, truly_segwit, redeem_script): (ScriptBuf, Expect, bool, Option<ScriptBuf>) = match &g.kind {
                WInKind::WalletP2wpkh => (wallet_scripts(keyindex)[0].clone(), Expect::Wpkh { pk: wpk(keyindex), nested: false }, true, None),
                WInKind::WalletP2sh => (wallet_scripts(keyindex)[1].clone(), Expect::Wpkh { pk: wpk(keyindex), nested: true }, true, Some(wallet_scripts(keyindex)[0].clone())),
                WInKind::WalletP2tr => (wallet_scripts(keyindex)[2].clone(), Expect::Tr { internal: wpk(keyindex) }, true, None),
                WInKind::ForeignP2wpkh => (Address::p2wpkh(&foreign_pk(0x60 + i as u8), net).script_pubkey(), Expect::Foreign, true, None),
                WInKind::ForeignP2pkh | WInKind::ForeignMisdescribed => (Address::p2pkh(&foreign_pk(0x60 + i as u8), net).script_pubkey(), Expect::Foreign, false, None),
                WInKind::CloseToRemote { anchors } | WInKind::CloseDelayed { anchors } => {
                    // a channel of this node that was closed unilaterally
                    let mut spec = ChanSpec::basic(50 + i as u64);
                    spec.peer = 2;
                    spec.anchors = *anchors;
                    let ci = match pw.new_stub(&spec) {
                        Out::Ok(ci) => ci,
                        _ => return Ok(()),
                    };
                    if !pw.setup_chan(ci).is_ok() {
                        st.class("wire:closed-channel-setup-refused");
                        return Ok(());
                    }
                    let ch = &pw.chans[ci];
                    let peer = PubKey(peer_id(spec.peer));
                    if matches!(g.kind, WInKind::CloseToRemote { .. }) {
                        let pay = ch.holder_pubkeys.payment_point;
                        close = Some(CloseInfo { channel_id: spec.dbid, peer_id: peer, commitment_point: None, is_anchors: *anchors, csv: if *anchors { 1 } else { 0 } });
                        if *anchors {
                            let rs = get_to_countersignatory_with_anchors_redeemscript(&pay);
                            sequence = Sequence(1);
                            wit_len = 1 + rs.len() as u128;
                            (rs.to_p2wsh(), Expect::Wsh { pk: pay, suffix: vec![rs.to_bytes()] }, true, None)
                        } else {
                            wit_len = 1 + 33;
                            (Address::p2wpkh(&CompressedPublicKey(pay), net).script_pubkey(), Expect::Wpkh { pk: pay, nested: false }, true, None)
                        }
                    } else {
                        let point = ch.holder_point(&secp, 3);
                        let keys = ch.holder_txkeys(&secp, &point);
                        let delay = ch.setup.counterparty_selected_contest_delay;
                        let rs = get_revokeable_redeemscript(&keys.revocation_key, delay, &keys.broadcaster_delayed_payment_key);
                        close = Some(CloseInfo { channel_id: spec.dbid, peer_id: peer, commitment_point: Some(PubKey(point.serialize())), is_anchors: *anchors, csv: delay as u32 });
                        sequence = Sequence(delay as u32);
                        wit_len = 1 + 1 + rs.len() as u128;
                        (rs.to_p2wsh(), Expect::Wsh { pk: keys.broadcaster_delayed_payment_key.to_public_key(), suffix: vec![vec![], rs.to_bytes()] }, true, None)
                    }
                }
            };
            // every input here has a recognised script type: the documented weight lower bound
            // counts 77 + the known witness suffix for it
            weight_extra += 2 + 1 + 1 + 72 + 1 + wit_len;
            // the full previous transaction (the spent output at index i % 2)
            let vout = (i % 2) as u32;
            let mut ptxid = [0u8; 32];
            ptxid[0] = i as u8;
            ptxid[2] = 0xc8;
            let mut pouts = vec![];
            if vout == 1 {
                pouts.push(TxOut { value: Amount::from_sat(1234), script_pubkey: foreign(30 + i as u8) });
            }
            pouts.push(TxOut { value: Amount::from_sat(v), script_pubkey: spk.clone() });
            let prev_tx = Transaction {
                version: Version::TWO,
                lock_time: LockTime::ZERO,
                input: vec![TxIn { previous_output: OutPoint { txid: Txid::from_byte_array(ptxid), vout: 0 }, script_sig: ScriptBuf::new(), sequence: Sequence::MAX, witness: Witness::new() }],
                output: pouts,
            };
            let is_ours = !matches!(g.kind, WInKind::ForeignP2wpkh | WInKind::ForeignP2pkh | WInKind::ForeignMisdescribed);
            let utxo = if is_ours {
                Some(Utxo {
                    txid: prev_tx.compute_txid(),
                    outnum: vout,
                    amount: v,
                    keyindex: if close.is_some() { 0 } else { keyindex },
                    is_p2sh: matches!(g.kind, WInKind::WalletP2sh),
                    script: Octets(spk.as_bytes().to_vec()),
                    close_info: close,
                    is_in_coinbase: false,
                })
            } else {
                None
            };
            sum_true += v as u128;
            if g.data == UtxoData::Neither {
                // what the request does not describe is not available for the outputs
                ins.push(InFact { prev_tx, vout, utxo: None, redeem_script, expect, truly_segwit, sequence });
                continue;
            }
            sum_in += v as u128;
            ins.push(InFact { prev_tx, vout, utxo, redeem_script, expect, truly_segwit, sequence });
        }
        let txins: Vec<TxIn> = ins.iter().map(|f| TxIn { previous_output: OutPoint { txid: f.prev_tx.compute_txid(), vout: f.vout }, script_sig: ScriptBuf::new(), sequence: f.sequence, witness: Witness::new() }).collect();
        let prev_outs: Vec<TxOut> = ins.iter().map(|f| f.prev_tx.output[f.vout as usize].clone()).collect();

        // --- outputs (labels as at API level) -------------------------------------------------
        let chans: Vec<ChanGen> = case.chans.iter().map(|g| if wg.good_chans { ChanGen { outbound: true, push: false, validated: true, value_sel: g.value_sel } } else { g.clone() }).collect();
        let mut chan_idx: Vec<Option<usize>> = vec![None; 3];
        let chan_values = [1_000_000u64, 250_000, 4_000_000];
        for c in 0..3u8 {
            if case.outputs.iter().any(|o| matches!(o.kind, OutKind::Channel { c: cc, .. } if cc % 3 == c)) {
                let g = &chans[c as usize];
                let mut spec = ChanSpec::basic(100 + c as u64);
                spec.outbound = g.outbound;
                spec.value_sat = chan_values[g.value_sel as usize % 3];
                spec.push_msat = if g.push { 5_000_000 } else { 0 };
                if let Out::Ok(i) = pw.new_stub(&spec) {
                    chan_idx[c as usize] = Some(i);
                }
            }
        }
        struct OutFact {
            beneficial_value: Option<u128>,
            unknown: bool,
            is_channel: bool,
            class: u8,
        }
        /// what the PSBT output says about the key
        enum Deriv {
            None,
            Bip32(PublicKey, DerivationPath),
            Tap(PublicKey, DerivationPath),
        }
        let mut outs: Vec<TxOut> = vec![];
        let mut derivs: Vec<Deriv> = vec![];
        let mut facts: Vec<OutFact> = vec![];
        let mut fixed_sum: u128 = 0;
        let mut chan_out_of: Vec<(usize, usize, u8, i8, bool)> = vec![];
        let mut used_chan = [false; 3];
        for (oi, g) in case.outputs.iter().enumerate() {
            let withheld = wg.withhold_path & (1 << oi) != 0;
            if let OutKind::Channel { c, value_delta, script_ok } = &g.kind {
                let c = (*c % 3) as usize;
                let (value_delta, script_ok) = if wg.good_chans { (&0i8, &true) } else { (value_delta, script_ok) };
                if used_chan[c] || chan_idx[c].is_none() {
                    outs.push(TxOut { value: Amount::ZERO, script_pubkey: foreign(oi as u8) });
                    derivs.push(Deriv::None);
                    facts.push(OutFact { beneficial_value: None, unknown: true, is_channel: false, class: 9 });
                    continue;
                }
                used_chan[c] = true;
                let ci = chan_idx[c].unwrap();
                let ch = &pw.chans[ci];
                let v = (ch.setup.channel_value_sat as i64 + *value_delta as i64) as u64;
                let spk = if *script_ok { ch.funding_redeemscript().to_p2wsh() } else { ScriptBuf::new_p2wsh(&bitcoin::WScriptHash::hash(&[0xee, oi as u8])) };
                outs.push(TxOut { value: Amount::from_sat(v), script_pubkey: spk });
                derivs.push(Deriv::None);
                fixed_sum += v as u128;
                chan_out_of.push((oi, ci, c as u8, *value_delta, *script_ok));
                facts.push(OutFact { beneficial_value: None, unknown: false, is_channel: true, class: 8 });
                continue;
            }
            let w = 60 + oi as u32;
            let xk = |idx: u32| axpub.derive_pub(&secp, &path_of(idx)).unwrap().public_key;
            // (script, derivation a truthful node would attach, beneficial with it, unknown with it,
            //  beneficial without it, class)
            let (spk, deriv, ben, unk, ben_withheld, class): (ScriptBuf, Deriv, bool, bool, bool, u8) = match &g.kind {
                OutKind::WalletP2wpkh => (wallet_scripts(w)[0].clone(), Deriv::Bip32(wpk(w), path_of(w)), true, false, false, 0),
                OutKind::WalletP2sh => (wallet_scripts(w)[1].clone(), Deriv::Bip32(wpk(w), path_of(w)), true, false, false, 1),
                OutKind::WalletP2tr => (wallet_scripts(w)[2].clone(), Deriv::Tap(wpk(w), path_of(w)), true, false, false, 2),
                OutKind::WalletWrongPath => (wallet_scripts(w)[0].clone(), Deriv::Bip32(wpk(w + 1), path_of(w + 1)), false, false, false, 3),
                OutKind::Allowlisted => (allow_addr.script_pubkey(), Deriv::None, true, false, true, 4),
                OutKind::XpubDerived => (Address::p2wpkh(&CompressedPublicKey(xk(7 + oi as u32)), net).script_pubkey(), Deriv::Bip32(xk(7 + oi as u32), path_of(7 + oi as u32)), true, false, false, 5),
                OutKind::XpubWrongPath => (Address::p2wpkh(&CompressedPublicKey(xk(7 + oi as u32)), net).script_pubkey(), Deriv::Bip32(xk(8 + oi as u32), path_of(8 + oi as u32)), false, false, false, 6),
                OutKind::Unknown => (foreign(oi as u8), Deriv::None, false, true, false, 7),
                OutKind::UnknownWithPath => (foreign(oi as u8), Deriv::Bip32(wpk(3), path_of(3)), false, false, false, 10),
                OutKind::WalletAndAllowlisted => (wallet_scripts(90 + oi as u32)[0].clone(), Deriv::Bip32(wpk(90 + oi as u32), path_of(90 + oi as u32)), true, false, true, 11),
                OutKind::Channel { .. } => unreachable!(),
            };
            let has_deriv = !matches!(deriv, Deriv::None);
            let (deriv, beneficial, unknown, class) = if withheld && has_deriv {
                // no path: beneficial only by the allowlist, otherwise an unknown destination
                (Deriv::None, ben_withheld, !ben_withheld, 20 + class)
            } else {
                (deriv, ben, unk, class)
            };
            outs.push(TxOut { value: Amount::ZERO, script_pubkey: spk });
            derivs.push(deriv);
            facts.push(OutFact { beneficial_value: if beneficial { Some(0) } else { None }, unknown, is_channel: false, class });
        }
        let mk = |outs: &Vec<TxOut>| Transaction { version: Version(case.version as i32), lock_time: LockTime::ZERO, input: txins.clone(), output: outs.clone() };
        let weight: u128 = mk(&outs).weight().to_wu() as u128 + weight_extra;
        let fee: Option<u128> = match &case.fee {
            FeeSel::Rate(r) => Some(*r as u128 * weight / 1000),
            FeeSel::MaxRate(d) => Some(((case.max_feerate as i128 + *d as i128).max(0) as u128) * weight / 1000),
            FeeSel::Pow32 { k, r } => Some((((*k as u128) << 32) + *r as u128) * weight / 1000 + 1),
            FeeSel::Negative(_) => None,
            FeeSel::Zero => Some(0),
        };
        let distributable: u128 = match (&case.fee, fee) {
            (_, Some(f)) => match sum_in.checked_sub(fixed_sum).and_then(|x| x.checked_sub(f)) {
                Some(d) => d,
                None => {
                    st.class("wire:inputs-too-small-for-fixed-outputs");
                    return Ok(());
                }
            },
            (FeeSel::Negative(d), None) => sum_in.saturating_sub(fixed_sum) + *d as u128,
            _ => unreachable!(),
        };
        let var_idx: Vec<usize> = (0..outs.len()).filter(|i| !facts[*i].is_channel).collect();
        let wsum: u128 = var_idx.iter().map(|i| case.outputs[*i].weight as u128).sum();
        let mut left = distributable;
        for (k, i) in var_idx.iter().enumerate() {
            let share = if k + 1 == var_idx.len() { left } else { distributable * case.outputs[*i].weight as u128 / wsum.max(1) };
            let share = share.min(left).min(u64::MAX as u128);
            left -= share;
            outs[*i].value = Amount::from_sat(share as u64);
            if facts[*i].beneficial_value.is_some() {
                facts[*i].beneficial_value = Some(share);
            }
        }
        let tx = mk(&outs);
        let txid = tx.compute_txid();
        // the funded channels: SetupChannel with the real outpoint, then (or not) the
        // counter-signed initial holder commitment
        let mut n_chan_out = 0usize;
        for (oi, ci, c, delta, script_ok) in chan_out_of.iter() {
            pw.chans[*ci].setup.funding_outpoint = OutPoint { txid, vout: *oi as u32 };
            if !pw.setup_chan(*ci).is_ok() {
                st.class("wire:channel-setup-refused");
                return Ok(());
            }
            let g = &chans[*c as usize];
            if g.validated {
                let ch = &pw.chans[*ci];
                let c0 = finish_content(false, ch.setup.channel_value_sat, 1000, ch.setup.push_value_msat / 1000, vec![], vec![]);
                let signed = ch.cp_sign_holder(&secp, 0, &c0, SigKind::Valid);
                let vm = validate_msg(ch, &secp, 0, &c0, &signed, false);
                if !pw.request(To::Chan(*ci), vm).is_ok() {
                    // the label would be uncertain
                    st.class("wire:initial-commitment-refused");
                    return Ok(());
                }
            }
            n_chan_out += 1;
            let fully = *delta == 0 && *script_ok && g.outbound && !g.push && g.validated;
            if fully {
                facts[*oi].beneficial_value = Some(pw.chans[*ci].setup.channel_value_sat as u128);
            }
        }

        // --- the request ---------------------------------------------------------------------
        let mut psbt = Psbt::from_unsigned_tx(tx.clone()).expect("unsigned tx");
        for (i, f) in ins.iter().enumerate() {
            // (somebody else's legacy input described by witness_utxo alone is sloppy but is what the
            // handler asks for: it reads witness_utxo of every input)
            let mut data = wg.inputs[i].data.clone();
            if wg.inputs[i].kind == WInKind::ForeignMisdescribed {
                // the claim: same value, a p2wpkh script; the previous transaction is withheld
                data = UtxoData::WitnessOnly;
                psbt.inputs[i].witness_utxo = Some(TxOut { value: prev_outs[i].value, script_pubkey: Address::p2wpkh(&foreign_pk(0x60 + i as u8), net).script_pubkey() });
            } else if data == UtxoData::Neither {
                st.class("wire:hidden-input");
            } else if data != UtxoData::NonWitnessOnly {
                psbt.inputs[i].witness_utxo = Some(prev_outs[i].clone());
            }
            if data != UtxoData::WitnessOnly && data != UtxoData::Neither {
                psbt.inputs[i].non_witness_utxo = Some(f.prev_tx.clone());
            }
            psbt.inputs[i].redeem_script = f.redeem_script.clone();
            st.class(format!("wire:in:{}:{:?}", in_kind_name(&wg.inputs[i].kind), data));
        }
        for (oi, d) in derivs.iter().enumerate() {
            match d {
                Deriv::None => {}
                Deriv::Bip32(pk, path) => {
                    let ks: KeySource = (fp, path.clone());
                    psbt.outputs[oi].bip32_derivation.insert(*pk, ks);
                }
                Deriv::Tap(pk, path) => {
                    let x: XOnlyPublicKey = pk.x_only_public_key().0;
                    psbt.outputs[oi].tap_internal_key = Some(x);
                    psbt.outputs[oi].tap_key_origins.insert(x, (vec![], (fp, path.clone())));
                }
            }
        }
        let utxos: Vec<Utxo> = ins.iter_mut().filter_map(|f| f.utxo.take()).collect();
        let msg = Message::SignWithdrawal(msgs::SignWithdrawal { utxos: Array(utxos), psbt: WithSize(StreamedPSBT::new(psbt)) });
        let rep = pw.request(To::Root, msg);
        let err = rep.err_msg();
        let mut asked_sets: Vec<Vec<usize>> = asked.lock().unwrap().clone();
        let mut classes: Vec<u8> = facts.iter().map(|f| f.class).collect();
        classes.sort();
        classes.dedup();
        let mut in_shape: Vec<String> = wg.inputs.iter().map(|g| format!("{}:{:?}", in_kind_name(&g.kind), g.data)).collect();
        in_shape.sort();
        let fee_tag = match &case.fee {
            FeeSel::Rate(_) => "rate".to_string(),
            FeeSel::MaxRate(d) => format!("max{:+}", d),
            FeeSel::Pow32 { .. } => "pow32".into(),
            FeeSel::Negative(_) => "negative".into(),
            FeeSel::Zero => "zero".into(),
        };
        let reason = if rep.is_err() { refusal_reason(&err) } else { String::new() };
        st.sample = Some(json!({"case": case, "sum_in": sum_in.to_string(), "fee": fee.map(|f| f.to_string()), "weight": weight.to_string(), "result": rep.tag(), "err": err, "asked": asked_sets}));
        // whenever the approver was consulted: about exactly the outputs labelled unknown
        if let Some(got) = asked_sets.pop() {
            let mut got = got;
            got.sort();
            let exp: Vec<usize> = facts.iter().enumerate().filter(|(_, f)| f.unknown).map(|(i, _)| i).collect();
            if got != exp {
                return ctx.report(st, Violation::new(
                    "C08:wire:unknown-destinations-set-wrong",
                    format!("the approver was asked about outputs {:?}, labelled unknown {:?}; protocol v{} case={:?}", got, exp, pver, case),
                ));
            }
        }
        let rep = match rep {
            Out::Ok(r) => r,
            Out::Err(_) => {
                st.class(format!("wire:refused:{}", reason));
                let any_unknown = facts.iter().any(|f| f.unknown) && reason == "unapproved-destination";
                let unknown_path = reason == "policy-onchain-no-unknown-outputs";
                let fee_refusal = reason == "policy-onchain-fee-range";
                if any_unknown || unknown_path {
                    st.nontrivial_shape(("wire-unknown", classes, n_chan_out, in_shape));
                } else if fee_refusal {
                    st.nontrivial_shape(("wire-fee", classes, n_chan_out, fee_tag, in_shape));
                }
                return Ok(());
            }
            Out::Panic(_) => {
                st.class("wire:panic");
                return Ok(());
            }
        };
        let Some(reply) = rep.as_any().downcast_ref::<msgs::SignWithdrawalReply>() else {
            return ctx.report(st, Violation::new("C08:wire:unexpected-reply", format!("SignWithdrawal answered with message type {}", rep.as_vec().iter().take(2).fold(0u32, |a, b| a * 256 + *b as u32))));
        };
        // --- accepted: the reference predicate of the API group ---------------------------------
        let mut bad: Vec<&'static str> = vec![];
        if case.version != 2 {
            bad.push("version");
        }
        if tx.base_size() > 32 * 1024 {
            bad.push("size");
        }
        for f in facts.iter() {
            if f.beneficial_value.is_none() {
                bad.push(if f.is_channel { "invalid-channel-funding-output-accepted" } else if f.unknown { "unknown-output-accepted" } else { "non-beneficial-output-accepted" });
            }
        }
        if n_chan_out > 0 && !ins.iter().all(|f| f.truly_segwit) {
            bad.push("non-segwit-input-with-channel-funding");
        }
        let beneficial: u128 = facts.iter().filter_map(|f| f.beneficial_value).sum();
        // what the transaction really spends (inputs the request does not describe included)
        if beneficial > sum_true {
            bad.push("beneficial-exceeds-inputs");
        } else {
            let nb = sum_true - beneficial;
            if case.max_feerate != u32::MAX && nb * 1000 / weight > case.max_feerate as u128 {
                bad.push("fee-rate-above-maximum");
            }
            if let Some(l) = case.fee_velocity_sat {
                if nb * 1000 > l as u128 * 1000 {
                    bad.push("fee-velocity-exceeded");
                }
            }
        }
        if let Some(b) = bad.first() {
            return ctx.report(st, Violation::new(
                format!("C08:wire:accepted:{}", b),
                format!("SignWithdrawal (protocol v{}) signed although {:?}; sum_in={} beneficial={} weight={} case={:?}", pver, bad, sum_in, beneficial, weight, case),
            ));
        }
        // the signatures: our inputs are signed by the right keys over this transaction
        let rp = &reply.psbt.0.inner;
        if rp.unsigned_tx != tx || rp.inputs.len() != ins.len() {
            return ctx.report(st, Violation::new("C08:wire:reply-transaction-differs", format!("the returned PSBT is about another transaction; case={:?}", case)));
        }
        // The witnesses are judged against the previous outputs as the request described them:
        // a signature commits to that description (taproot: of every input), so with a
        // misdescribed input it is worthless on the chain, which is the protection, not a defect.
        let described: Vec<TxOut> = prev_outs
            .iter()
            .enumerate()
            .map(|(i, o)| if wg.inputs[i].kind == WInKind::ForeignMisdescribed { TxOut { value: o.value, script_pubkey: Address::p2wpkh(&foreign_pk(0x60 + i as u8), net).script_pubkey() } } else { o.clone() })
            .collect();
        for (i, f) in ins.iter().enumerate() {
            if let Err(what) = verify_wire_input(&secp, &tx, &described, i, &f.expect, &rp.inputs[i], net) {
                return ctx.report(st, Violation::new(
                    format!("C08:wire:witness:{}:{}", in_kind_name(&wg.inputs[i].kind), what),
                    format!("input {} of the signed withdrawal (protocol v{}): {}; case={:?}", i, pver, what, case),
                ));
            }
        }
        st.class("wire:accepted");
        if n_chan_out >= 1 {
            st.class("wire:accepted_with_channel_funding");
        }
        if facts.len() >= 2 {
            st.nontrivial_shape(("wire-ok", classes, n_chan_out, in_shape));
        }
        Ok(())
    }
}

fn in_kind_name(k: &WInKind) -> &'static str {
    match k {
        WInKind::WalletP2wpkh => "p2wpkh",
        WInKind::WalletP2sh => "p2sh-p2wpkh",
        WInKind::WalletP2tr => "p2tr",
        WInKind::CloseToRemote { anchors: false } => "close-to-remote",
        WInKind::CloseToRemote { anchors: true } => "close-to-remote-anchors",
        WInKind::CloseDelayed { .. } => "close-delayed",
        WInKind::ForeignP2wpkh => "foreign-p2wpkh",
        WInKind::ForeignP2pkh => "foreign-p2pkh",
        WInKind::ForeignMisdescribed => "foreign-p2pkh-claimed-p2wpkh",
    }
}

impl Prop for C08 {
    type Case = Case;
    fn id(&self) -> &'static str {
        "C08"
    }
    fn rule(&self) -> String {
        "transactions assembled from labelled pieces: 1-4 inputs (wallet p2wpkh / p2sh-p2wpkh / p2tr / p2pkh, foreign p2wsh / non-standard, \
         unilateral-close key with 0-2 stack items; values small, k*2^32+r, huge, near u64::MAX; truthful or forced segwit flags), 1-5 outputs \
         (wallet address of 3 kinds with right or wrong path, allowlisted script, allowlisted-xpub derived with right/wrong path, funding \
         output of one of up to 3 channels with exact/off-by-one value and right/wrong script, unknown with or without path), channels \
         outbound/inbound, with/without push, initial commitment counter-signed or not; fee from a rate, max-rate +-k, k*2^32+r per kw, zero \
         or negative; fee velocity limited or unlimited; version 1/2/3; optionally oversize; 1-3 repeats for velocity accumulation; through \
         Node::check_onchain_tx or Approve::handle_proposed_onchain (negative approver). Oracle: Ok => version 2, size within limit, every \
         output beneficial by its label (wallet with right path, allowlisted, xpub-derived with right path, or a fully valid funding output: \
         exact value and script, outbound, no push, initial commitment counter-signed), all segwit flags set if any channel is funded, 0 <= \
         inputs - beneficial and its exact rate over the documented weight lower bound <= max, cumulative approved fee within the velocity \
         limit; Err(UnknownDestinations(I)) => I is exactly the outputs labelled unknown. Non-trivial: accepted transactions with >=1 \
         channel output or >=3 output classes, and UnknownDestinations results; distinct by class multiset. Wire group (about 22% of the \
         cases): the outputs, channels, fee and policy of the case with 1-3 inputs as an hsmd client describes them (wallet p2wpkh / \
         p2sh-p2wpkh with redeem script / p2tr by key index; to-remote (static-remotekey or anchors) and delayed to-local outputs of a \
         closed channel by close_info; somebody else's p2wpkh / p2pkh input without utxo entry; each with witness_utxo only, the previous \
         transaction only, or both), PSBT outputs with bip32 / taproot key origins for wallet and xpub destinations (or withheld), sent as \
         SignWithdrawal across the wire encoding to a root handler built like vlsd's (protocol 4/5/6, declining approver that records what \
         it is asked), channels opened by NewChannel/SetupChannel/ValidateCommitmentTx2. A SignWithdrawalReply implies the same reference \
         predicate (segwit judged by the true previous outputs) and witnesses of all own inputs that verify under the wallet / channel \
         keys; whenever the approver is consulted it is about exactly the outputs labelled unknown. Non-trivial there: signed transactions \
         with >=2 outputs, refusals for unknown outputs or for the fee."
            .into()
    }
    fn assumptions(&self) -> Vec<String> {
        vec![
            "the weight lower bound is the documented one: tx weight + per signable input 77 + (33 or the supplied stack bytes)".into(),
            "an explicit approval of unknown destinations (positive approver) is outside the oracle".into(),
            "wire group: the node describes its inputs truthfully (values and scripts of witness_utxo are the real previous outputs); a p2sh-p2wpkh input counts as segwit".into(),
        ]
    }
    fn cases(&self, tier: Tier) -> u32 {
        tier.pick(2000, 15_000)
    }
    fn min_nontrivial(&self, tier: Tier) -> usize {
        tier.pick(150, 350)
    }
    fn strategy(&self, _tier: Tier) -> BoxedStrategy<Case> {
        (
            prop_oneof![12 => Just(2u8), 1 => Just(1u8), 1 => Just(3u8)],
            proptest::collection::vec(in_strat(), 1..5),
            proptest::collection::vec(out_strat(), 1..6),
            proptest::collection::vec(chan_strat(), 3..4),
            prop_oneof![
                6 => (253u32..20_000).prop_map(FeeSel::Rate),
                4 => prop_oneof![Just(-3i8), Just(-1i8), Just(0i8), Just(1i8), Just(3i8)].prop_map(FeeSel::MaxRate),
                2 => (1u8..3, prop_oneof![Just(0u32), Just(1000u32), any::<u32>()]).prop_map(|(k, r)| FeeSel::Pow32 { k, r }),
                1 => (1u32..100_000).prop_map(FeeSel::Negative),
                1 => Just(FeeSel::Zero),
            ],
            prop_oneof![3 => Just(None), 2 => (1u32..3000).prop_map(Some)],
            prop_oneof![3 => Just(333_333u32), 1 => Just(5000u32), 1 => Just(u32::MAX)],
            1u8..4,
            prop::bool::weighted(0.3),
            prop::bool::weighted(0.03),
            prop_oneof![9 => Just(None), 1 => (1u8..4, 24u8..32).prop_map(Some)],
            (prop_oneof![3 => Just(0u8), 1 => Just(1u8), 1 => Just(2u8)], prop_oneof![5 => Just(0u8), 2 => 1u8..13], prop_oneof![7 => Just(None), 2 => wire_strat().prop_map(Some)], prop::bool::weighted(0.4), prop_oneof![19 => Just(None), 1 => (0u8..3, 0u8..4, 0u8..3).prop_map(Some)], any::<bool>()),
        )
            .prop_map(|(version, inputs, outputs, chans, fee, fee_velocity_sat, max_feerate, repeats, via_approver, big_tx, storm, (restart_before, allow_edit, wire, onchain, startup, approving))| {
                // a storm is only interesting with a finite fee velocity limit
                let fee_velocity_sat = if storm.is_some() { fee_velocity_sat.or(Some(2500)) } else { fee_velocity_sat };
                Case { approving: approving && via_approver, version, inputs, outputs, chans, fee, fee_velocity_sat, max_feerate, repeats, via_approver, big_tx, storm, restart_before, allow_edit, onchain: onchain && wire.is_none(), wire, startup }
            })
            .boxed()
    }

    fn run(&self, case: &Case, st: &mut CaseStats, ctx: &Ctx) -> Result<(), Violation> {
        if let Some((pv, edit, restarts)) = case.startup {
            return self.run_startup(pv, edit, restarts, st, ctx);
        }
        if let Some(wg) = &case.wire {
            return self.run_wire(case, wg, st, ctx);
        }
        let net = Network::Testnet;
        let mut cfg = WorldCfg::default_testnet();
        cfg.policy.max_feerate_per_kw = case.max_feerate;
        cfg.policy.fee_velocity_control = match case.fee_velocity_sat {
            Some(l) => VelocityControlSpec { limit_msat: l as u64 * 1000, interval_type: VelocityControlIntervalType::Daily },
            None => VelocityControlSpec::UNLIMITED,
        };
        let mut w = if case.onchain { World::new_onchain(cfg) } else { World::new(cfg) };
        st.class(if case.onchain { "onchain-factory" } else { "simple-factory" });
        let secp = w.secp.clone();
        let wxpub = w.node.get_account_extended_pubkey();
        let wallet_scripts = |idx: u32| -> [ScriptBuf; 4] {
            let pk = CompressedPublicKey(wxpub.derive_pub(&secp, &path_of(idx)).unwrap().public_key);
            [
                Address::p2wpkh(&pk, net).script_pubkey(),
                Address::p2shwpkh(&pk, net).script_pubkey(),
                Address::p2tr(&secp, UntweakedPublicKey::from(pk.0), None, net).script_pubkey(),
                Address::p2pkh(&pk, net).script_pubkey(),
            ]
        };
        let allow_pk = CompressedPublicKey(PublicKey::from_secret_key(&secp, &SecretKey::from_slice(&[9u8; 32]).unwrap()));
        let allow_addr = Address::p2wpkh(&allow_pk, net);
        let axpub = Xpub::from_priv(&secp, &Xpriv::new_master(net, &[7u8; 32]).unwrap());
        let mut allow_entries = vec![format!("address:{}", allow_addr), format!("xpub:{}", axpub)];
        // the node's own addresses 90..96 are allowlisted as well (overlap of wallet and allowlist)
        for idx in 90u32..96 {
            let pk = CompressedPublicKey(wxpub.derive_pub(&secp, &path_of(idx)).unwrap().public_key);
            allow_entries.push(format!("address:{}", Address::p2wpkh(&pk, net)));
        }
        w.node.add_allowlist(&allow_entries).expect("allowlist");
        let mut allowlisted_now = true;
        if case.allow_edit != 0 {
            let absent = Address::p2wpkh(&CompressedPublicKey(PublicKey::from_secret_key(&secp, &SecretKey::from_slice(&[0x3c; 32]).unwrap())), net);
            allowlisted_now = crate::world::allowlist_edit(&mut w, &format!("address:{}", allow_addr), &format!("address:{}", absent), case.allow_edit);
            st.class(format!("allowlist_edit:{}", crate::world::allowlist_edit_label(case.allow_edit)));
        }
        let foreign = |i: u8| Address::p2wpkh(&CompressedPublicKey(PublicKey::from_secret_key(&secp, &SecretKey::from_slice(&[40 + i; 32]).unwrap())), net).script_pubkey();

        // approved non-beneficial value with the time of approval; the window of the daily control is
        // judged over 23 h (its bucket granularity is one hour), a sound lower bound
        let mut fee_ledger: Vec<(u64, u128)> = vec![];
        let has_chan_out = case.outputs.iter().any(|o| matches!(o.kind, OutKind::Channel { .. }));
        let storm = if has_chan_out || case.big_tx { None } else { case.storm };
        let total_reps: u8 = match storm {
            Some((_, extra)) => case.repeats.saturating_add(extra),
            None => case.repeats,
        };
        if storm.is_some() {
            st.class("retry_storm");
        }
        for rep in 0..total_reps {
            if case.restart_before != 0 && rep == case.restart_before {
                let r = w.restart();
                st.class(format!("restart:{}", r.tag()));
                if !r.is_ok() {
                    return Ok(());
                }
            }
            if let Some((gap_after, _)) = storm {
                if rep == gap_after.min(case.repeats) {
                    let t = w.clock.now().as_secs() + 3900;
                    w.clock.set(std::time::Duration::from_secs(t));
                }
            }
            // stubs for the channels referenced by this transaction
            let mut chan_idx: Vec<Option<usize>> = vec![None; 3];
            let chan_values = [1_000_000u64, 250_000, 4_000_000];
            let used: Vec<u8> = case.outputs.iter().filter_map(|o| if let OutKind::Channel { c, .. } = o.kind { Some(c % 3) } else { None }).collect();
            for c in 0..3u8 {
                if used.contains(&c) {
                    let g = &case.chans[c as usize];
                    let mut spec = ChanSpec::basic(100 * (rep as u64 + 1) + c as u64);
                    spec.outbound = g.outbound;
                    spec.value_sat = chan_values[g.value_sel as usize % 3];
                    spec.push_msat = if g.push { 5_000_000 } else { 0 };
                    if let Out::Ok(i) = w.new_stub(&spec) {
                        chan_idx[c as usize] = Some(i);
                    }
                }
            }
            // inputs
            let mut txins = vec![];
            let mut prev_outs = vec![];
            let mut flags = vec![];
            let mut ucks: Vec<Option<(SecretKey, Vec<Vec<u8>>)>> = vec![];
            let mut weight_extra: u128 = 0;
            let mut sum_in: u128 = 0;
            for (i, g) in case.inputs.iter().enumerate() {
                let v: u64 = match &g.val {
                    ValSel::Small(v) => *v as u64,
                    ValSel::Pow32Mult { k, r } => ((*k as u64) << 32) + *r as u64,
                    ValSel::Huge => 1 << 50,
                    ValSel::NearMax => u64::MAX / 2 + 5,
                };
                let (spk, truthful_segwit, signable): (ScriptBuf, bool, bool) = match &g.kind {
                    InKind::WalletP2wpkh => (wallet_scripts(20 + i as u32)[0].clone(), true, true),
                    InKind::WalletP2sh => (wallet_scripts(20 + i as u32)[1].clone(), true, true),
                    InKind::WalletP2tr => (wallet_scripts(20 + i as u32)[2].clone(), true, true),
                    InKind::WalletP2pkh => (wallet_scripts(20 + i as u32)[3].clone(), false, true),
                    InKind::ForeignP2wsh => (ScriptBuf::new_p2wsh(&bitcoin::WScriptHash::hash(&[i as u8])), true, true),
                    InKind::ForeignOther => (ScriptBuf::from_bytes(vec![0x51]), false, false),
                    InKind::UniClose { .. } => (ScriptBuf::new_p2wsh(&bitcoin::WScriptHash::hash(&[0x70 + i as u8])), true, true),
                };
                let uck = match &g.kind {
                    InKind::UniClose { stack_len } => {
                        let stack: Vec<Vec<u8>> = (0..*stack_len).map(|k| vec![k; 30 + 40 * k as usize]).collect();
                        Some((SecretKey::from_slice(&[0x31; 32]).unwrap(), stack))
                    }
                    _ => None,
                };
                if signable {
                    let wit_len: u128 = match &uck {
                        Some((_, stack)) => stack.iter().map(|v| 1 + v.len() as u128).sum(),
                        None => 33,
                    };
                    weight_extra += 2 + 1 + 1 + 72 + 1 + wit_len;
                }
                let mut txid = [0u8; 32];
                txid[0] = i as u8;
                txid[1] = rep;
                txid[2] = 0xc8;
                txins.push(TxIn { previous_output: OutPoint { txid: Txid::from_byte_array(txid), vout: i as u32 }, script_sig: ScriptBuf::new(), sequence: Sequence::MAX, witness: Witness::new() });
                prev_outs.push(TxOut { value: Amount::from_sat(v), script_pubkey: spk });
                flags.push(g.flag_override.unwrap_or(truthful_segwit));
                ucks.push(uck);
                sum_in += v as u128;
            }
            // outputs: first fixed-value ones (channels), then distribute the rest
            struct OutFact {
                beneficial_value: Option<u128>,
                unknown: bool,
                is_channel: bool,
                class: u8,
            }
            let mut outs: Vec<TxOut> = vec![];
            let mut opaths: Vec<DerivationPath> = vec![];
            let mut facts: Vec<OutFact> = vec![];
            let mut fixed_sum: u128 = 0;
            let mut chan_out_of: Vec<(usize, usize, i8, bool)> = vec![]; // (output index, chan idx, delta, script_ok)
            let mut used_chan = [false; 3];
            for (oi, g) in case.outputs.iter().enumerate() {
                if let OutKind::Channel { c, value_delta, script_ok } = &g.kind {
                    let c = (*c % 3) as usize;
                    if used_chan[c] || chan_idx[c].is_none() {
                        // a channel has one funding output; treat the duplicate as an unknown output
                        outs.push(TxOut { value: Amount::ZERO, script_pubkey: foreign(oi as u8) });
                        opaths.push(DerivationPath::master());
                        facts.push(OutFact { beneficial_value: None, unknown: true, is_channel: false, class: 9 });
                        continue;
                    }
                    used_chan[c] = true;
                    let ci = chan_idx[c].unwrap();
                    let ch = &w.chans[ci];
                    let v = (ch.setup.channel_value_sat as i64 + *value_delta as i64) as u64;
                    let spk = if *script_ok { ch.funding_redeemscript().to_p2wsh() } else { ScriptBuf::new_p2wsh(&bitcoin::WScriptHash::hash(&[0xee, oi as u8])) };
                    outs.push(TxOut { value: Amount::from_sat(v), script_pubkey: spk });
                    opaths.push(DerivationPath::master());
                    fixed_sum += v as u128;
                    chan_out_of.push((oi, ci, *value_delta, *script_ok));
                    facts.push(OutFact { beneficial_value: None, unknown: false, is_channel: true, class: 8 });
                } else {
                    let (spk, path, beneficial, unknown, class): (ScriptBuf, DerivationPath, bool, bool, u8) = match &g.kind {
                        OutKind::WalletP2wpkh => (wallet_scripts(60 + oi as u32)[0].clone(), path_of(60 + oi as u32), true, false, 0),
                        OutKind::WalletP2sh => (wallet_scripts(60 + oi as u32)[1].clone(), path_of(60 + oi as u32), true, false, 1),
                        OutKind::WalletP2tr => (wallet_scripts(60 + oi as u32)[2].clone(), path_of(60 + oi as u32), true, false, 2),
                        OutKind::WalletWrongPath => (wallet_scripts(60 + oi as u32)[0].clone(), path_of(61 + oi as u32), false, false, 3),
                        OutKind::Allowlisted => (allow_addr.script_pubkey(), DerivationPath::master(), allowlisted_now, !allowlisted_now, 4),
                        OutKind::XpubDerived => {
                            let pk = CompressedPublicKey(axpub.derive_pub(&secp, &path_of(7 + oi as u32)).unwrap().public_key);
                            (Address::p2wpkh(&pk, net).script_pubkey(), path_of(7 + oi as u32), true, false, 5)
                        }
                        OutKind::XpubWrongPath => {
                            let pk = CompressedPublicKey(axpub.derive_pub(&secp, &path_of(7 + oi as u32)).unwrap().public_key);
                            (Address::p2wpkh(&pk, net).script_pubkey(), path_of(8 + oi as u32), false, false, 6)
                        }
                        OutKind::Unknown => (foreign(oi as u8), DerivationPath::master(), false, true, 7),
                        OutKind::UnknownWithPath => (foreign(oi as u8), path_of(3), false, false, 10),
                        OutKind::WalletAndAllowlisted => (wallet_scripts(90 + oi as u32)[0].clone(), path_of(90 + oi as u32), true, false, 11),
                        OutKind::Channel { .. } => unreachable!(),
                    };
                    outs.push(TxOut { value: Amount::ZERO, script_pubkey: spk });
                    opaths.push(path);
                    facts.push(OutFact { beneficial_value: if beneficial { Some(0) } else { None }, unknown, is_channel: false, class });
                }
            }
            // build once to learn the weight
            let mk = |outs: &Vec<TxOut>| Transaction { version: Version(case.version as i32), lock_time: LockTime::ZERO, input: txins.clone(), output: outs.clone() };
            let mut outs_w = outs.clone();
            if case.big_tx {
                for k in 0..1100u32 {
                    outs_w.push(TxOut { value: Amount::ZERO, script_pubkey: wallet_scripts(200 + k)[0].clone() });
                }
            }
            let weight: u128 = mk(&outs_w).weight().to_wu() as u128 + weight_extra;
            let fee: Option<u128> = match &case.fee {
                FeeSel::Rate(r) => Some(*r as u128 * weight / 1000),
                FeeSel::MaxRate(d) => Some(((case.max_feerate as i128 + *d as i128).max(0) as u128) * weight / 1000),
                FeeSel::Pow32 { k, r } => Some((((*k as u128) << 32) + *r as u128) * weight / 1000 + 1),
                FeeSel::Negative(_) => None,
                FeeSel::Zero => Some(0),
            };
            let distributable: u128 = match (&case.fee, fee) {
                (_, Some(f)) => match sum_in.checked_sub(fixed_sum).and_then(|x| x.checked_sub(f)) {
                    Some(d) => d,
                    None => {
                        st.class("inputs-too-small-for-fixed-outputs");
                        return Ok(());
                    }
                },
                (FeeSel::Negative(d), None) => sum_in.saturating_sub(fixed_sum) + *d as u128,
                _ => unreachable!(),
            };
            let var_idx: Vec<usize> = (0..outs.len()).filter(|i| !facts[*i].is_channel).collect();
            let wsum: u128 = var_idx.iter().map(|i| case.outputs[*i].weight as u128).sum();
            let mut left = distributable;
            for (k, i) in var_idx.iter().enumerate() {
                let share = if k + 1 == var_idx.len() { left } else { distributable * case.outputs[*i].weight as u128 / wsum.max(1) };
                let share = share.min(left).min(u64::MAX as u128);
                left -= share;
                outs[*i].value = Amount::from_sat(share as u64);
                if facts[*i].beneficial_value.is_some() {
                    facts[*i].beneficial_value = Some(share);
                }
            }
            let mut final_outs = outs.clone();
            let mut final_opaths = opaths.clone();
            if case.big_tx {
                for k in 0..1100u32 {
                    final_outs.push(TxOut { value: Amount::ZERO, script_pubkey: wallet_scripts(200 + k)[0].clone() });
                    final_opaths.push(path_of(200 + k));
                }
            }
            let tx = mk(&final_outs);
            let txid = tx.compute_txid();
            // set up the funded channels now that the txid is known
            let mut chan_valid: Vec<(usize, bool)> = vec![];
            for (oi, ci, delta, script_ok) in chan_out_of.iter() {
                w.chans[*ci].setup.funding_outpoint = OutPoint { txid, vout: *oi as u32 };
                let r = w.setup_chan(*ci);
                if !r.is_ok() {
                    st.class("channel-setup-refused");
                    return Ok(());
                }
                let g = case.chans.iter().zip(0..3).find(|(_, c)| chan_idx[*c as usize] == Some(*ci)).map(|(g, _)| g.clone()).unwrap();
                let mut validated = false;
                if g.validated {
                    let ch = &w.chans[*ci];
                    let v = ch.setup.channel_value_sat;
                    let c0 = finish_content(false, v, 1000, ch.setup.push_value_msat / 1000, vec![], vec![]);
                    let s = ch.cp_sign_holder(&secp, 0, &c0, SigKind::Valid);
                    let r = w.with_chan(*ci, |c| {
                        c.validate_holder_commitment_tx_phase2(0, c0.feerate, c0.to_holder, c0.to_cp, vec![], vec![], &s.commit_sig, &s.htlc_sigs)?;
                        c.activate_initial_commitment()
                    });
                    validated = r.is_ok();
                }
                let fully = *delta == 0 && *script_ok && g.outbound && !g.push && validated;
                chan_valid.push((*oi, fully));
                if fully {
                    facts[*oi].beneficial_value = Some(w.chans[*ci].setup.channel_value_sat as u128);
                }
            }
            // --- the request ---
            let node = w.node.clone();
            let (txc, flagsc, prevc, uckc, opc) = (tx.clone(), flags.clone(), prev_outs.clone(), ucks.clone(), final_opaths.clone());
            let (accepted, unknown_idx, res_tag, err_msg): (bool, Option<Vec<usize>>, &'static str, String) = if case.via_approver {
                let approving = case.approving;
                let r = call(move || if approving {
                    vls_protocol_signer::approver::PositiveApprover().handle_proposed_onchain(&node, &txc, &flagsc, &prevc, &uckc, &opc)
                } else {
                    NegativeApprover().handle_proposed_onchain(&node, &txc, &flagsc, &prevc, &uckc, &opc)
                });
                match r {
                    Out::Ok(true) => (true, None, "ok", String::new()),
                    Out::Ok(false) => (false, None, "declined", String::new()),
                    Out::Err(e) => (false, None, "err", e.message().to_string()),
                    Out::Panic(p) => (false, None, "panic", p),
                }
            } else {
                let r = std::panic::catch_unwind(std::panic::AssertUnwindSafe(move || node.check_onchain_tx(&txc, &flagsc, &prevc, &uckc, &opc)));
                match r {
                    Ok(Ok(())) => (true, None, "ok", String::new()),
                    Ok(Err(ve)) => match &ve.kind {
                        ValidationErrorKind::UnknownDestinations(_, idx) => (false, Some(idx.clone()), "unknown-destinations", String::new()),
                        _ => (false, None, "err", ve.to_string()),
                    },
                    Err(_) => (false, None, "panic", "panic".into()),
                }
            };
            st.class(format!("{}:{}", if case.approving { "approving-approver" } else if case.via_approver { "approver" } else { "check" }, res_tag));
            if std::env::var("VERIF_ERRCLASS").is_ok() && !err_msg.is_empty() {
                st.class(format!("E:{}", short_err(&err_msg)));
            }
            if rep == 0 {
                st.sample = Some(json!({"case": case, "sum_in": sum_in.to_string(), "fee": fee.map(|f| f.to_string()), "weight": weight.to_string(), "result": res_tag}));
            }
            let mut classes: Vec<u8> = facts.iter().map(|f| f.class).collect();
            classes.sort();
            classes.dedup();
            let n_chan_out = chan_valid.len();
            if let Some(idx) = &unknown_idx {
                let mut exp: Vec<usize> = facts.iter().enumerate().filter(|(_, f)| f.unknown).map(|(i, _)| i).collect();
                exp.sort();
                let mut got = idx.clone();
                got.sort();
                if got != exp {
                    return ctx.report(st, Violation::new(
                        "C08:unknown-destinations-set-wrong",
                        format!("reported unknown outputs {:?}, labelled unknown {:?}; case={:?}", got, exp, case),
                    ));
                }
                st.nontrivial_shape(("unknown", classes.clone(), n_chan_out));
            }
            if !accepted {
                if res_tag == "panic" {
                    break;
                }
                continue;
            }
            // --- accepted: reference predicate ---
            let mut bad: Vec<&'static str> = vec![];
            if case.version != 2 {
                bad.push("version");
            }
            if case.approving && facts.iter().any(|f| f.unknown && !f.is_channel) {
                // the operator's approver accepted the unknown destinations: the value that goes
                // to them is the operator's decision (no fee bound is applied by the signer then);
                // what a funded channel requires is not the approver's to waive
                st.class("approved-unknown-destinations");
                if n_chan_out > 0 && !flags.iter().all(|f| *f) {
                    bad.push("non-segwit-input-with-channel-funding");
                }
                if facts.iter().any(|f| f.is_channel && f.beneficial_value.is_none()) {
                    bad.push("invalid-channel-funding-output-accepted");
                }
                if let Some(b) = bad.first() {
                    return ctx.report(st, Violation::new(
                        format!("C08:approved-unknown-destinations:accepted:{}", b),
                        format!("accepted (unknown destinations approved by the operator's approver) although {:?}; case={:?}", bad, case),
                    ));
                }
                st.nontrivial_shape(("approved-unknown", classes.clone(), n_chan_out));
                continue;
            }
            if tx.base_size() > 32 * 1024 {
                bad.push("size");
            }
            for (i, f) in facts.iter().enumerate() {
                if f.beneficial_value.is_none() {
                    bad.push(if f.is_channel { "invalid-channel-funding-output-accepted" } else if f.unknown { "unknown-output-accepted" } else { "non-beneficial-output-accepted" });
                    let _ = i;
                }
            }
            if n_chan_out > 0 && !flags.iter().all(|f| *f) {
                bad.push("non-segwit-input-with-channel-funding");
            }
            let beneficial: u128 = facts.iter().filter_map(|f| f.beneficial_value).sum();
            if beneficial > sum_in {
                bad.push("beneficial-exceeds-inputs");
            } else {
                let nb = sum_in - beneficial;
                let rate_floor = nb * 1000 / weight;
                if case.max_feerate != u32::MAX && rate_floor > case.max_feerate as u128 {
                    bad.push("fee-rate-above-maximum");
                }
                let now = w.clock.now().as_secs();
                fee_ledger.push((now, nb * 1000));
                if let Some(l) = case.fee_velocity_sat {
                    let in_window: u128 = fee_ledger.iter().filter(|(t, _)| *t + 82_800 > now).map(|(_, a)| *a).sum();
                    if in_window > l as u128 * 1000 {
                        bad.push("fee-velocity-exceeded");
                    }
                    if storm.is_some() && rep >= case.repeats {
                        st.class("accepted_during_retry_storm");
                    }
                }
            }
            if let Some(b) = bad.first() {
                return ctx.report(st, Violation::new(
                    format!("C08:accepted:{}", b),
                    format!("accepted although {:?}; sum_in={} beneficial={} weight={} case={:?}", bad, sum_in, beneficial, weight, case),
                ));
            }
            if n_chan_out >= 1 || classes.len() >= 3 {
                st.nontrivial_shape(("ok", classes, n_chan_out, case.inputs.len()));
            }
            st.class("accepted");
            if n_chan_out >= 1 {
                st.class("accepted_with_channel_funding");
            }
        }
        Ok(())
    }
}
