//! C08 — on-chain spends lose at most a bounded fee and fund only validated channels.
//!
//! Transactions are assembled from *labelled* pieces so the ground truth is known by
//! construction.  Ok ⇒ reference predicate; Err(UnknownDestinations(I)) ⇒ I is exactly the set
//! of outputs labelled unknown.

use crate::engine::*;
use crate::props::holder::{finish_content, short_err};
use crate::world::*;
use lightning_signer::bitcoin;
use lightning_signer::bitcoin::absolute::LockTime;
use lightning_signer::bitcoin::bip32::{ChildNumber, DerivationPath, Xpriv, Xpub};
use lightning_signer::bitcoin::hashes::Hash;
use lightning_signer::bitcoin::key::UntweakedPublicKey;
use lightning_signer::bitcoin::secp256k1::{PublicKey, SecretKey};
use lightning_signer::bitcoin::transaction::Version;
use lightning_signer::bitcoin::{Address, Amount, CompressedPublicKey, Network, OutPoint, ScriptBuf, Sequence, Transaction, TxIn, TxOut, Txid, Witness};
use lightning_signer::policy::error::ValidationErrorKind;
use lightning_signer::util::clock::Clock;
use lightning_signer::util::velocity::{VelocityControlIntervalType, VelocityControlSpec};
use proptest::prelude::*;
use serde::{Deserialize, Serialize};
use serde_json::json;
use vls_protocol_signer::approver::{Approve, NegativeApprover};

#[derive(Clone, Debug, Serialize, Deserialize, PartialEq, Eq, Hash)]
pub enum InKind {
    WalletP2wpkh,
    WalletP2sh,
    WalletP2tr,
    WalletP2pkh,
    ForeignP2wsh,
    ForeignOther,
    /// spends a unilateral-close output: a close key and witness stack suffix are supplied
    UniClose { stack_len: u8 },
}

#[derive(Clone, Debug, Serialize, Deserialize, PartialEq, Eq, Hash)]
pub enum ValSel {
    Small(u32),
    Pow32Mult { k: u8, r: u32 },
    Huge,
    NearMax,
}

#[derive(Clone, Debug, Serialize, Deserialize, PartialEq, Eq, Hash)]
pub struct InGen {
    pub kind: InKind,
    pub val: ValSel,
    /// the segwit flag given for this input: Some(x) forces, None = truthful
    pub flag_override: Option<bool>,
}

#[derive(Clone, Debug, Serialize, Deserialize, PartialEq, Eq, Hash)]
pub enum OutKind {
    WalletP2wpkh,
    WalletP2sh,
    WalletP2tr,
    WalletWrongPath,
    Allowlisted,
    XpubDerived,
    XpubWrongPath,
    /// funding output of channel slot c (0..2)
    Channel { c: u8, value_delta: i8, script_ok: bool },
    /// foreign script, no path
    Unknown,
    /// foreign script with a path hint
    UnknownWithPath,
    /// an address of the node's own wallet (right path) that is also on the allowlist: beneficial
    /// once, however many reasons there are for it
    WalletAndAllowlisted,
}

#[derive(Clone, Debug, Serialize, Deserialize, PartialEq, Eq, Hash)]
pub struct OutGen {
    pub kind: OutKind,
    /// share of the distributable value (weights)
    pub weight: u8,
}

#[derive(Clone, Debug, Serialize, Deserialize, PartialEq, Eq, Hash)]
pub struct ChanGen {
    pub outbound: bool,
    pub push: bool,
    /// initial holder commitment validated (counter-signed) before the funding tx is checked
    pub validated: bool,
    /// ... and additionally advanced beyond 1
    pub value_sel: u8,
}

#[derive(Clone, Debug, Serialize, Deserialize, PartialEq, Eq, Hash)]
pub enum FeeSel {
    Rate(u32),
    MaxRate(i8),
    Pow32 { k: u8, r: u32 },
    Negative(u32),
    Zero,
}

#[derive(Clone, Debug, Serialize, Deserialize)]
pub struct Case {
    pub version: u8,
    pub inputs: Vec<InGen>,
    pub outputs: Vec<OutGen>,
    pub chans: Vec<ChanGen>,
    pub fee: FeeSel,
    pub fee_velocity_sat: Option<u32>,
    pub max_feerate: u32,
    /// repeat the same kind of transaction this many times (velocity accumulation)
    pub repeats: u8,
    pub via_approver: bool,
    pub big_tx: bool,
    /// retry storm: after `gap_after` repeats the clock moves on by 65 minutes (one bucket of the
    /// daily control) and the same transaction is retried `extra` more times without any further
    /// delay; only for transactions without channel outputs
    #[serde(default)]
    pub storm: Option<(u8, u8)>,
    /// the signer is restarted from the store before this repeat (0 = never)
    #[serde(default)]
    pub restart_before: u8,
    /// allowlist edit history before the first transaction (world::allowlist_edit; 0 = none):
    /// afterwards the plainly allowlisted address is an unknown destination
    #[serde(default)]
    pub allow_edit: u8,
}

fn in_strat() -> impl Strategy<Value = InGen> {
    (
        prop_oneof![
            6 => Just(InKind::WalletP2wpkh), 2 => Just(InKind::WalletP2sh), 2 => Just(InKind::WalletP2tr), 1 => Just(InKind::WalletP2pkh),
            1 => Just(InKind::ForeignP2wsh), 1 => Just(InKind::ForeignOther), 2 => (0u8..3).prop_map(|stack_len| InKind::UniClose { stack_len }),
        ],
        prop_oneof![
            10 => (10_000u32..5_000_000).prop_map(ValSel::Small),
            2 => (1u8..4, prop_oneof![Just(0u32), Just(1000u32), any::<u32>()]).prop_map(|(k, r)| ValSel::Pow32Mult { k, r }),
            1 => Just(ValSel::Huge), 1 => Just(ValSel::NearMax),
        ],
        prop_oneof![12 => Just(None), 1 => Just(Some(false)), 1 => Just(Some(true))],
    )
        .prop_map(|(kind, val, flag_override)| InGen { kind, val, flag_override })
}

fn out_strat() -> impl Strategy<Value = OutGen> {
    (
        prop_oneof![
            6 => Just(OutKind::WalletP2wpkh), 2 => Just(OutKind::WalletP2sh), 2 => Just(OutKind::WalletP2tr), 1 => Just(OutKind::WalletWrongPath),
            3 => Just(OutKind::Allowlisted), 2 => Just(OutKind::XpubDerived), 1 => Just(OutKind::XpubWrongPath),
            8 => (0u8..3, prop_oneof![10 => Just(0i8), 1 => Just(1i8), 1 => Just(-1i8)], prop::bool::weighted(0.9)).prop_map(|(c, value_delta, script_ok)| OutKind::Channel { c, value_delta, script_ok }),
            3 => Just(OutKind::Unknown), 1 => Just(OutKind::UnknownWithPath), 3 => Just(OutKind::WalletAndAllowlisted),
        ],
        1u8..10,
    )
        .prop_map(|(kind, weight)| OutGen { kind, weight })
}

fn chan_strat() -> impl Strategy<Value = ChanGen> {
    (prop::bool::weighted(0.85), prop::bool::weighted(0.12), prop::bool::weighted(0.85), 0u8..3).prop_map(|(outbound, push, validated, value_sel)| ChanGen { outbound, push, validated, value_sel })
}

pub struct C08;

fn path_of(idx: u32) -> DerivationPath {
    vec![ChildNumber::from_normal_idx(idx).unwrap()].into()
}

impl Prop for C08 {
    type Case = Case;
    fn id(&self) -> &'static str {
        "C08"
    }
    fn rule(&self) -> String {
        "transactions assembled from labelled pieces: 1-4 inputs (wallet p2wpkh / p2sh-p2wpkh / p2tr / p2pkh, foreign p2wsh / non-standard, \
         unilateral-close key with 0-2 stack items; values small, k*2^32+r, huge, near u64::MAX; truthful or forced segwit flags), 1-5 outputs \
         (wallet address of 3 kinds with right or wrong path, allowlisted script, allowlisted-xpub derived with right/wrong path, funding \
         output of one of up to 3 channels with exact/off-by-one value and right/wrong script, unknown with or without path), channels \
         outbound/inbound, with/without push, initial commitment counter-signed or not; fee from a rate, max-rate +-k, k*2^32+r per kw, zero \
         or negative; fee velocity limited or unlimited; version 1/2/3; optionally oversize; 1-3 repeats for velocity accumulation; through \
         Node::check_onchain_tx or Approve::handle_proposed_onchain (negative approver). Oracle: Ok => version 2, size within limit, every \
         output beneficial by its label (wallet with right path, allowlisted, xpub-derived with right path, or a fully valid funding output: \
         exact value and script, outbound, no push, initial commitment counter-signed), all segwit flags set if any channel is funded, 0 <= \
         inputs - beneficial and its exact rate over the documented weight lower bound <= max, cumulative approved fee within the velocity \
         limit; Err(UnknownDestinations(I)) => I is exactly the outputs labelled unknown. Non-trivial: accepted transactions with >=1 \
         channel output or >=3 output classes, and UnknownDestinations results; distinct by class multiset."
            .into()
    }
    fn assumptions(&self) -> Vec<String> {
        vec![
            "the weight lower bound is the documented one: tx weight + per signable input 77 + (33 or the supplied stack bytes)".into(),
            "an explicit approval of unknown destinations (positive approver) is outside the oracle".into(),
        ]
    }
    fn cases(&self, tier: Tier) -> u32 {
        tier.pick(700, 15_000)
    }
    fn min_nontrivial(&self, tier: Tier) -> usize {
        tier.pick(150, 350)
    }
    fn strategy(&self, _tier: Tier) -> BoxedStrategy<Case> {
        (
            prop_oneof![12 => Just(2u8), 1 => Just(1u8), 1 => Just(3u8)],
            proptest::collection::vec(in_strat(), 1..5),
            proptest::collection::vec(out_strat(), 1..6),
            proptest::collection::vec(chan_strat(), 3..4),
            prop_oneof![
                6 => (253u32..20_000).prop_map(FeeSel::Rate),
                4 => prop_oneof![Just(-3i8), Just(-1i8), Just(0i8), Just(1i8), Just(3i8)].prop_map(FeeSel::MaxRate),
                2 => (1u8..3, prop_oneof![Just(0u32), Just(1000u32), any::<u32>()]).prop_map(|(k, r)| FeeSel::Pow32 { k, r }),
                1 => (1u32..100_000).prop_map(FeeSel::Negative),
                1 => Just(FeeSel::Zero),
            ],
            prop_oneof![3 => Just(None), 2 => (1u32..3000).prop_map(Some)],
            prop_oneof![3 => Just(333_333u32), 1 => Just(5000u32), 1 => Just(u32::MAX)],
            1u8..4,
            prop::bool::weighted(0.3),
            prop::bool::weighted(0.03),
            prop_oneof![9 => Just(None), 1 => (1u8..4, 24u8..32).prop_map(Some)],
            (prop_oneof![3 => Just(0u8), 1 => Just(1u8), 1 => Just(2u8)], prop_oneof![5 => Just(0u8), 2 => 1u8..7]),
        )
            .prop_map(|(version, inputs, outputs, chans, fee, fee_velocity_sat, max_feerate, repeats, via_approver, big_tx, storm, (restart_before, allow_edit))| {
                // a storm is only interesting with a finite fee velocity limit
                let fee_velocity_sat = if storm.is_some() { fee_velocity_sat.or(Some(2500)) } else { fee_velocity_sat };
                Case { version, inputs, outputs, chans, fee, fee_velocity_sat, max_feerate, repeats, via_approver, big_tx, storm, restart_before, allow_edit }
            })
            .boxed()
    }

    fn run(&self, case: &Case, st: &mut CaseStats, ctx: &Ctx) -> Result<(), Violation> {
        let net = Network::Testnet;
        let mut cfg = WorldCfg::default_testnet();
        cfg.policy.max_feerate_per_kw = case.max_feerate;
        cfg.policy.fee_velocity_control = match case.fee_velocity_sat {
            Some(l) => VelocityControlSpec { limit_msat: l as u64 * 1000, interval_type: VelocityControlIntervalType::Daily },
            None => VelocityControlSpec::UNLIMITED,
        };
        let mut w = World::new(cfg);
        let secp = w.secp.clone();
        let wxpub = w.node.get_account_extended_pubkey();
        let wallet_scripts = |idx: u32| -> [ScriptBuf; 4] {
            let pk = CompressedPublicKey(wxpub.derive_pub(&secp, &path_of(idx)).unwrap().public_key);
            [
                Address::p2wpkh(&pk, net).script_pubkey(),
                Address::p2shwpkh(&pk, net).script_pubkey(),
                Address::p2tr(&secp, UntweakedPublicKey::from(pk.0), None, net).script_pubkey(),
                Address::p2pkh(&pk, net).script_pubkey(),
            ]
        };
        let allow_pk = CompressedPublicKey(PublicKey::from_secret_key(&secp, &SecretKey::from_slice(&[9u8; 32]).unwrap()));
        let allow_addr = Address::p2wpkh(&allow_pk, net);
        let axpub = Xpub::from_priv(&secp, &Xpriv::new_master(net, &[7u8; 32]).unwrap());
        let mut allow_entries = vec![format!("address:{}", allow_addr), format!("xpub:{}", axpub)];
        // the node's own addresses 90..96 are allowlisted as well (overlap of wallet and allowlist)
        for idx in 90u32..96 {
            let pk = CompressedPublicKey(wxpub.derive_pub(&secp, &path_of(idx)).unwrap().public_key);
            allow_entries.push(format!("address:{}", Address::p2wpkh(&pk, net)));
        }
        w.node.add_allowlist(&allow_entries).expect("allowlist");
        let mut allowlisted_now = true;
        if case.allow_edit != 0 {
            let absent = Address::p2wpkh(&CompressedPublicKey(PublicKey::from_secret_key(&secp, &SecretKey::from_slice(&[0x3c; 32]).unwrap())), net);
            allowlisted_now = crate::world::allowlist_edit(&mut w, &format!("address:{}", allow_addr), &format!("address:{}", absent), case.allow_edit);
            st.class(format!("allowlist_edit:{}", case.allow_edit % 7));
        }
        let foreign = |i: u8| Address::p2wpkh(&CompressedPublicKey(PublicKey::from_secret_key(&secp, &SecretKey::from_slice(&[40 + i; 32]).unwrap())), net).script_pubkey();

        // approved non-beneficial value with the time of approval; the window of the daily control is
        // judged over 23 h (its bucket granularity is one hour), a sound lower bound
        let mut fee_ledger: Vec<(u64, u128)> = vec![];
        let has_chan_out = case.outputs.iter().any(|o| matches!(o.kind, OutKind::Channel { .. }));
        let storm = if has_chan_out || case.big_tx { None } else { case.storm };
        let total_reps: u8 = match storm {
            Some((_, extra)) => case.repeats.saturating_add(extra),
            None => case.repeats,
        };
        if storm.is_some() {
            st.class("retry_storm");
        }
        for rep in 0..total_reps {
            if case.restart_before != 0 && rep == case.restart_before {
                let r = w.restart();
                st.class(format!("restart:{}", r.tag()));
                if !r.is_ok() {
                    return Ok(());
                }
            }
            if let Some((gap_after, _)) = storm {
                if rep == gap_after.min(case.repeats) {
                    let t = w.clock.now().as_secs() + 3900;
                    w.clock.set(std::time::Duration::from_secs(t));
                }
            }
            // stubs for the channels referenced by this transaction
            let mut chan_idx: Vec<Option<usize>> = vec![None; 3];
            let chan_values = [1_000_000u64, 250_000, 4_000_000];
            let used: Vec<u8> = case.outputs.iter().filter_map(|o| if let OutKind::Channel { c, .. } = o.kind { Some(c % 3) } else { None }).collect();
            for c in 0..3u8 {
                if used.contains(&c) {
                    let g = &case.chans[c as usize];
                    let mut spec = ChanSpec::basic(100 * (rep as u64 + 1) + c as u64);
                    spec.outbound = g.outbound;
                    spec.value_sat = chan_values[g.value_sel as usize % 3];
                    spec.push_msat = if g.push { 5_000_000 } else { 0 };
                    if let Out::Ok(i) = w.new_stub(&spec) {
                        chan_idx[c as usize] = Some(i);
                    }
                }
            }
            // inputs
            let mut txins = vec![];
            let mut prev_outs = vec![];
            let mut flags = vec![];
            let mut ucks: Vec<Option<(SecretKey, Vec<Vec<u8>>)>> = vec![];
            let mut weight_extra: u128 = 0;
            let mut sum_in: u128 = 0;
            for (i, g) in case.inputs.iter().enumerate() {
                let v: u64 = match &g.val {
                    ValSel::Small(v) => *v as u64,
                    ValSel::Pow32Mult { k, r } => ((*k as u64) << 32) + *r as u64,
                    ValSel::Huge => 1 << 50,
                    ValSel::NearMax => u64::MAX / 2 + 5,
                };
                let (spk, truthful_segwit, signable): (ScriptBuf, bool, bool) = match &g.kind {
                    InKind::WalletP2wpkh => (wallet_scripts(20 + i as u32)[0].clone(), true, true),
                    InKind::WalletP2sh => (wallet_scripts(20 + i as u32)[1].clone(), true, true),
                    InKind::WalletP2tr => (wallet_scripts(20 + i as u32)[2].clone(), true, true),
                    InKind::WalletP2pkh => (wallet_scripts(20 + i as u32)[3].clone(), false, true),
                    InKind::ForeignP2wsh => (ScriptBuf::new_p2wsh(&bitcoin::WScriptHash::hash(&[i as u8])), true, true),
                    InKind::ForeignOther => (ScriptBuf::from_bytes(vec![0x51]), false, false),
                    InKind::UniClose { .. } => (ScriptBuf::new_p2wsh(&bitcoin::WScriptHash::hash(&[0x70 + i as u8])), true, true),
                };
                let uck = match &g.kind {
                    InKind::UniClose { stack_len } => {
                        let stack: Vec<Vec<u8>> = (0..*stack_len).map(|k| vec![k; 30 + 40 * k as usize]).collect();
                        Some((SecretKey::from_slice(&[0x31; 32]).unwrap(), stack))
                    }
                    _ => None,
                };
                if signable {
                    let wit_len: u128 = match &uck {
                        Some((_, stack)) => stack.iter().map(|v| 1 + v.len() as u128).sum(),
                        None => 33,
                    };
                    weight_extra += 2 + 1 + 1 + 72 + 1 + wit_len;
                }
                let mut txid = [0u8; 32];
                txid[0] = i as u8;
                txid[1] = rep;
                txid[2] = 0xc8;
                txins.push(TxIn { previous_output: OutPoint { txid: Txid::from_byte_array(txid), vout: i as u32 }, script_sig: ScriptBuf::new(), sequence: Sequence::MAX, witness: Witness::new() });
                prev_outs.push(TxOut { value: Amount::from_sat(v), script_pubkey: spk });
                flags.push(g.flag_override.unwrap_or(truthful_segwit));
                ucks.push(uck);
                sum_in += v as u128;
            }
            // outputs: first fixed-value ones (channels), then distribute the rest
            struct OutFact {
                beneficial_value: Option<u128>,
                unknown: bool,
                is_channel: bool,
                class: u8,
            }
            let mut outs: Vec<TxOut> = vec![];
            let mut opaths: Vec<DerivationPath> = vec![];
            let mut facts: Vec<OutFact> = vec![];
            let mut fixed_sum: u128 = 0;
            let mut chan_out_of: Vec<(usize, usize, i8, bool)> = vec![]; // (output index, chan idx, delta, script_ok)
            let mut used_chan = [false; 3];
            for (oi, g) in case.outputs.iter().enumerate() {
                if let OutKind::Channel { c, value_delta, script_ok } = &g.kind {
                    let c = (*c % 3) as usize;
                    if used_chan[c] || chan_idx[c].is_none() {
                        // a channel has one funding output; treat the duplicate as an unknown output
                        outs.push(TxOut { value: Amount::ZERO, script_pubkey: foreign(oi as u8) });
                        opaths.push(DerivationPath::master());
                        facts.push(OutFact { beneficial_value: None, unknown: true, is_channel: false, class: 9 });
                        continue;
                    }
                    used_chan[c] = true;
                    let ci = chan_idx[c].unwrap();
                    let ch = &w.chans[ci];
                    let v = (ch.setup.channel_value_sat as i64 + *value_delta as i64) as u64;
                    let spk = if *script_ok { ch.funding_redeemscript().to_p2wsh() } else { ScriptBuf::new_p2wsh(&bitcoin::WScriptHash::hash(&[0xee, oi as u8])) };
                    outs.push(TxOut { value: Amount::from_sat(v), script_pubkey: spk });
                    opaths.push(DerivationPath::master());
                    fixed_sum += v as u128;
                    chan_out_of.push((oi, ci, *value_delta, *script_ok));
                    facts.push(OutFact { beneficial_value: None, unknown: false, is_channel: true, class: 8 });
                } else {
                    let (spk, path, beneficial, unknown, class): (ScriptBuf, DerivationPath, bool, bool, u8) = match &g.kind {
                        OutKind::WalletP2wpkh => (wallet_scripts(60 + oi as u32)[0].clone(), path_of(60 + oi as u32), true, false, 0),
                        OutKind::WalletP2sh => (wallet_scripts(60 + oi as u32)[1].clone(), path_of(60 + oi as u32), true, false, 1),
                        OutKind::WalletP2tr => (wallet_scripts(60 + oi as u32)[2].clone(), path_of(60 + oi as u32), true, false, 2),
                        OutKind::WalletWrongPath => (wallet_scripts(60 + oi as u32)[0].clone(), path_of(61 + oi as u32), false, false, 3),
                        OutKind::Allowlisted => (allow_addr.script_pubkey(), DerivationPath::master(), allowlisted_now, !allowlisted_now, 4),
                        OutKind::XpubDerived => {
                            let pk = CompressedPublicKey(axpub.derive_pub(&secp, &path_of(7 + oi as u32)).unwrap().public_key);
                            (Address::p2wpkh(&pk, net).script_pubkey(), path_of(7 + oi as u32), true, false, 5)
                        }
                        OutKind::XpubWrongPath => {
                            let pk = CompressedPublicKey(axpub.derive_pub(&secp, &path_of(7 + oi as u32)).unwrap().public_key);
                            (Address::p2wpkh(&pk, net).script_pubkey(), path_of(8 + oi as u32), false, false, 6)
                        }
                        OutKind::Unknown => (foreign(oi as u8), DerivationPath::master(), false, true, 7),
                        OutKind::UnknownWithPath => (foreign(oi as u8), path_of(3), false, false, 10),
                        OutKind::WalletAndAllowlisted => (wallet_scripts(90 + oi as u32)[0].clone(), path_of(90 + oi as u32), true, false, 11),
                        OutKind::Channel { .. } => unreachable!(),
                    };
                    outs.push(TxOut { value: Amount::ZERO, script_pubkey: spk });
                    opaths.push(path);
                    facts.push(OutFact { beneficial_value: if beneficial { Some(0) } else { None }, unknown, is_channel: false, class });
                }
            }
            // build once to learn the weight
            let mk = |outs: &Vec<TxOut>| Transaction { version: Version(case.version as i32), lock_time: LockTime::ZERO, input: txins.clone(), output: outs.clone() };
            let mut outs_w = outs.clone();
            if case.big_tx {
                for k in 0..1100u32 {
                    outs_w.push(TxOut { value: Amount::ZERO, script_pubkey: wallet_scripts(200 + k)[0].clone() });
                }
            }
            let weight: u128 = mk(&outs_w).weight().to_wu() as u128 + weight_extra;
            let fee: Option<u128> = match &case.fee {
                FeeSel::Rate(r) => Some(*r as u128 * weight / 1000),
                FeeSel::MaxRate(d) => Some(((case.max_feerate as i128 + *d as i128).max(0) as u128) * weight / 1000),
                FeeSel::Pow32 { k, r } => Some((((*k as u128) << 32) + *r as u128) * weight / 1000 + 1),
                FeeSel::Negative(_) => None,
                FeeSel::Zero => Some(0),
            };
            let distributable: u128 = match (&case.fee, fee) {
                (_, Some(f)) => match sum_in.checked_sub(fixed_sum).and_then(|x| x.checked_sub(f)) {
                    Some(d) => d,
                    None => {
                        st.class("inputs-too-small-for-fixed-outputs");
                        return Ok(());
                    }
                },
                (FeeSel::Negative(d), None) => sum_in.saturating_sub(fixed_sum) + *d as u128,
                _ => unreachable!(),
            };
            let var_idx: Vec<usize> = (0..outs.len()).filter(|i| !facts[*i].is_channel).collect();
            let wsum: u128 = var_idx.iter().map(|i| case.outputs[*i].weight as u128).sum();
            let mut left = distributable;
            for (k, i) in var_idx.iter().enumerate() {
                let share = if k + 1 == var_idx.len() { left } else { distributable * case.outputs[*i].weight as u128 / wsum.max(1) };
                let share = share.min(left).min(u64::MAX as u128);
                left -= share;
                outs[*i].value = Amount::from_sat(share as u64);
                if facts[*i].beneficial_value.is_some() {
                    facts[*i].beneficial_value = Some(share);
                }
            }
            let mut final_outs = outs.clone();
            let mut final_opaths = opaths.clone();
            if case.big_tx {
                for k in 0..1100u32 {
                    final_outs.push(TxOut { value: Amount::ZERO, script_pubkey: wallet_scripts(200 + k)[0].clone() });
                    final_opaths.push(path_of(200 + k));
                }
            }
            let tx = mk(&final_outs);
            let txid = tx.compute_txid();
            // set up the funded channels now that the txid is known
            let mut chan_valid: Vec<(usize, bool)> = vec![];
            for (oi, ci, delta, script_ok) in chan_out_of.iter() {
                w.chans[*ci].setup.funding_outpoint = OutPoint { txid, vout: *oi as u32 };
                let r = w.setup_chan(*ci);
                if !r.is_ok() {
                    st.class("channel-setup-refused");
                    return Ok(());
                }
                let g = case.chans.iter().zip(0..3).find(|(_, c)| chan_idx[*c as usize] == Some(*ci)).map(|(g, _)| g.clone()).unwrap();
                let mut validated = false;
                if g.validated {
                    let ch = &w.chans[*ci];
                    let v = ch.setup.channel_value_sat;
                    let c0 = finish_content(false, v, 1000, ch.setup.push_value_msat / 1000, vec![], vec![]);
                    let s = ch.cp_sign_holder(&secp, 0, &c0, SigKind::Valid);
                    let r = w.with_chan(*ci, |c| {
                        c.validate_holder_commitment_tx_phase2(0, c0.feerate, c0.to_holder, c0.to_cp, vec![], vec![], &s.commit_sig, &s.htlc_sigs)?;
                        c.activate_initial_commitment()
                    });
                    validated = r.is_ok();
                }
                let fully = *delta == 0 && *script_ok && g.outbound && !g.push && validated;
                chan_valid.push((*oi, fully));
                if fully {
                    facts[*oi].beneficial_value = Some(w.chans[*ci].setup.channel_value_sat as u128);
                }
            }
            // --- the request ---
            let node = w.node.clone();
            let (txc, flagsc, prevc, uckc, opc) = (tx.clone(), flags.clone(), prev_outs.clone(), ucks.clone(), final_opaths.clone());
            let (accepted, unknown_idx, res_tag, err_msg): (bool, Option<Vec<usize>>, &'static str, String) = if case.via_approver {
                let r = call(move || NegativeApprover().handle_proposed_onchain(&node, &txc, &flagsc, &prevc, &uckc, &opc));
                match r {
                    Out::Ok(true) => (true, None, "ok", String::new()),
                    Out::Ok(false) => (false, None, "declined", String::new()),
                    Out::Err(e) => (false, None, "err", e.message().to_string()),
                    Out::Panic(p) => (false, None, "panic", p),
                }
            } else {
                let r = std::panic::catch_unwind(std::panic::AssertUnwindSafe(move || node.check_onchain_tx(&txc, &flagsc, &prevc, &uckc, &opc)));
                match r {
                    Ok(Ok(())) => (true, None, "ok", String::new()),
                    Ok(Err(ve)) => match &ve.kind {
                        ValidationErrorKind::UnknownDestinations(_, idx) => (false, Some(idx.clone()), "unknown-destinations", String::new()),
                        _ => (false, None, "err", ve.to_string()),
                    },
                    Err(_) => (false, None, "panic", "panic".into()),
                }
            };
            st.class(format!("{}:{}", if case.via_approver { "approver" } else { "check" }, res_tag));
            if std::env::var("VERIF_ERRCLASS").is_ok() && !err_msg.is_empty() {
                st.class(format!("E:{}", short_err(&err_msg)));
            }
            if rep == 0 {
                st.sample = Some(json!({"case": case, "sum_in": sum_in.to_string(), "fee": fee.map(|f| f.to_string()), "weight": weight.to_string(), "result": res_tag}));
            }
            let mut classes: Vec<u8> = facts.iter().map(|f| f.class).collect();
            classes.sort();
            classes.dedup();
            let n_chan_out = chan_valid.len();
            if let Some(idx) = &unknown_idx {
                let mut exp: Vec<usize> = facts.iter().enumerate().filter(|(_, f)| f.unknown).map(|(i, _)| i).collect();
                exp.sort();
                let mut got = idx.clone();
                got.sort();
                if got != exp {
                    return ctx.report(st, Violation::new(
                        "C08:unknown-destinations-set-wrong",
                        format!("reported unknown outputs {:?}, labelled unknown {:?}; case={:?}", got, exp, case),
                    ));
                }
                st.nontrivial_shape(("unknown", classes.clone(), n_chan_out));
            }
            if !accepted {
                if res_tag == "panic" {
                    break;
                }
                continue;
            }
            // --- accepted: reference predicate ---
            let mut bad: Vec<&'static str> = vec![];
            if case.version != 2 {
                bad.push("version");
            }
            if tx.base_size() > 32 * 1024 {
                bad.push("size");
            }
            for (i, f) in facts.iter().enumerate() {
                if f.beneficial_value.is_none() {
                    bad.push(if f.is_channel { "invalid-channel-funding-output-accepted" } else if f.unknown { "unknown-output-accepted" } else { "non-beneficial-output-accepted" });
                    let _ = i;
                }
            }
            if n_chan_out > 0 && !flags.iter().all(|f| *f) {
                bad.push("non-segwit-input-with-channel-funding");
            }
            let beneficial: u128 = facts.iter().filter_map(|f| f.beneficial_value).sum();
            if beneficial > sum_in {
                bad.push("beneficial-exceeds-inputs");
            } else {
                let nb = sum_in - beneficial;
                let rate_floor = nb * 1000 / weight;
                if case.max_feerate != u32::MAX && rate_floor > case.max_feerate as u128 {
                    bad.push("fee-rate-above-maximum");
                }
                let now = w.clock.now().as_secs();
                fee_ledger.push((now, nb * 1000));
                if let Some(l) = case.fee_velocity_sat {
                    let in_window: u128 = fee_ledger.iter().filter(|(t, _)| *t + 82_800 > now).map(|(_, a)| *a).sum();
                    if in_window > l as u128 * 1000 {
                        bad.push("fee-velocity-exceeded");
                    }
                    if storm.is_some() && rep >= case.repeats {
                        st.class("accepted_during_retry_storm");
                    }
                }
            }
            if let Some(b) = bad.first() {
                return ctx.report(st, Violation::new(
                    format!("C08:accepted:{}", b),
                    format!("accepted although {:?}; sum_in={} beneficial={} weight={} case={:?}", bad, sum_in, beneficial, weight, case),
                ));
            }
            if n_chan_out >= 1 || classes.len() >= 3 {
                st.nontrivial_shape(("ok", classes, n_chan_out, case.inputs.len()));
            }
            st.class("accepted");
            if n_chan_out >= 1 {
                st.class("accepted_with_channel_funding");
            }
        }
        Ok(())
    }
}
