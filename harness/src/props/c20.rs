//! C20 — concurrent requests neither deadlock nor break per-channel atomicity.
//!
//! Compiled only with `--cfg vls_verif` (vls-core then uses shuttle's sync primitives).
//! proptest generates a small *program* (2-3 threads x 1-2 requests with fixed arguments);
//! shuttle explores thread schedules of it (random and PCT schedulers, fixed seeds).
//! Oracle: (i) no schedule deadlocks or panics; (ii) the replies and the final observable state
//! equal those of some sequential interleaving of the same requests on a fresh world.

use crate::chainpool::{make_block, make_proof, mk_content, open_funded, regtest_cfg, tracker_add, ChanTxs, Deliver, FundSpec};
use crate::engine::*;
use crate::world::*;
use lightning_signer::bitcoin;
use lightning_signer::bitcoin::absolute::LockTime;
use lightning_signer::bitcoin::bip32::{ChildNumber, DerivationPath};
use lightning_signer::bitcoin::hashes::Hash;
use lightning_signer::bitcoin::secp256k1::{PublicKey, SecretKey};
use lightning_signer::bitcoin::consensus::serialize;
use lightning_signer::bitcoin::transaction::Version;
use lightning_signer::bitcoin::{Amount, OutPoint, ScriptBuf, Sequence, Transaction, TxIn, TxOut, Txid, Witness};
use lightning_signer::channel::{ChannelBase, ChannelSlot};
use lightning_signer::node::NodeMonitor;
use lightning_signer::persist::Persist;
use lightning_signer::util::status::Status;
use lightning_signer::util::test_utils::make_testnet_header;
use lightning_signer::wallet::Wallet;
use proptest::prelude::*;
use serde::{Deserialize, Serialize};
use serde_json::json;
use shuttle::scheduler::{PctScheduler, RandomScheduler};
use std::collections::BTreeSet;
use std::panic::{catch_unwind, AssertUnwindSafe};

const VALUE: u64 = 5_000_000;
const BASE_CP: u64 = 2_000_000;

#[derive(Clone, Debug, Serialize, Deserialize, PartialEq, Eq, Hash, PartialOrd, Ord)]
pub enum Req {
    /// validate holder commitment n on channel ch with a fixed content variant
    HValidate { ch: u8, n: u8, variant: u8 },
    HRevoke { ch: u8, n: u8 },
    HSecret { ch: u8, n: u8 },
    CSign { ch: u8, n: u8, variant: u8 },
    CRevoke { ch: u8, n: u8 },
    /// with_channel(|c| c.balance()): takes the node state under the slot lock
    ChanBalance { ch: u8 },
    /// Node::channel_balance(): channels map, then every slot, then node state
    NodeBalance,
    Heartbeat,
    Forget { ch: u8 },
    NewChannel { dbid: u8 },
    Approve { h: u8 },
    Onchain,
    AddBlock,
    Allowlist { k: u8 },
    /// Node::unchecked_sign_onchain_tx of a plain wallet spend (channel map, then tracker)
    SignOnchain,
    /// Node::setup_channel of the stub created in the initial state (tracker, then channel map)
    SetupStub,
    /// chain scenario: connect a block that holds channel ch's holder commitment (the monitor asks
    /// the channel for its parameters while the tracker and the monitor state are held); without
    /// the chain scenario this is a plain AddBlock.  ch >= 2: same for channel ch % 2, but the
    /// block is delivered streamed
    AddBlockClose { ch: u8 },
    /// sign counterparty commitment 1 with one outgoing HTLC of 40 000 sat for hash 0, which the
    /// initial state approves for 50 000 sat: each such request is fine alone, two of them on two
    /// channels overpay (validate and apply of the node-wide payment ledger must be one step).
    /// phase1 = raw entry point (transaction + witness scripts), else the semantic one
    CSignPay { ch: u8, phase1: bool },
    /// force-close signature for the current holder commitment (number 0): marks the channel
    /// closed, which the balance reports as sweeping
    HSignClose { ch: u8 },
    /// first counterparty commitment (number 0) on the stub channel of the chain scenario: only
    /// possible once SetupStub has made it ready (a request racing the setup of its own channel)
    StubCSign,
    /// keysend of 600 000 msat for a fresh hash through a VelocityApprover (limit 1 000 000 msat
    /// per hour) shared by all threads, as vlsd's approver chain does: two of them fit one at a
    /// time only
    ApproverKeysend { h: u8 },
    /// ValidateCommitmentTx2 for holder commitment n of channel ch through a channel handler that
    /// negotiated protocol version 4 (HsmdInit2 / LDK-style clients): the handler validates and
    /// then revokes the previous commitment in one request, which must stay one atomic step
    WireValidate { ch: u8, n: u8, variant: u8 },
    /// Node::add_invoice of a 30 000 sat invoice for hash 10 + h (validator factory, node state)
    Invoice { h: u8 },
    /// Node::sign_bolt11_invoice of an invoice the node issues itself for hash 14 + h
    IssueInvoice { h: u8 },
    /// keysend of 30 000 sat for hash 10 + h (the hashes of `Invoice`) proposed through a stateless
    /// approving approver (`PositiveApprover`, the PreapproveKeysend path of a permissive signer):
    /// look-up, approval and `Node::add_keysend`
    Keysend { h: u8 },
    /// `TipInfo` through the root handler (what a chain follower asks before every block): the
    /// reply pairs a height with the hash of the block at that height
    WireTipInfo,
}

#[derive(Clone, Debug, Serialize, Deserialize)]
pub struct Case {
    pub threads: Vec<Vec<Req>>,
    pub pct: bool,
    pub sched_seed: u64,
    /// chain scenario: regtest node, both channels funded by real transactions that are confirmed
    /// in block 1, plus one channel stub (see `fresh_world`)
    #[serde(default)]
    pub chain: bool,
}

fn req_strat() -> impl Strategy<Value = Req> {
    let ch = || 0u8..2;
    let n = || 1u8..3;
    prop_oneof![
        5 => (ch(), n(), 0u8..2).prop_map(|(ch, n, variant)| Req::HValidate { ch, n, variant }),
        4 => (ch(), n()).prop_map(|(ch, n)| Req::HRevoke { ch, n }),
        1 => (ch(), 0u8..2).prop_map(|(ch, n)| Req::HSecret { ch, n }),
        5 => (ch(), n(), 0u8..2).prop_map(|(ch, n, variant)| Req::CSign { ch, n, variant }),
        3 => (ch(), 0u8..2).prop_map(|(ch, n)| Req::CRevoke { ch, n }),
        4 => ch().prop_map(|ch| Req::ChanBalance { ch }),
        3 => Just(Req::NodeBalance),
        3 => Just(Req::Heartbeat),
        4 => ch().prop_map(|ch| Req::Forget { ch }),
        2 => (3u8..6).prop_map(|dbid| Req::NewChannel { dbid }),
        2 => (0u8..2).prop_map(|h| Req::Approve { h }),
        2 => Just(Req::Onchain),
        2 => Just(Req::AddBlock),
        1 => (0u8..2).prop_map(|k| Req::Allowlist { k }),
        2 => Just(Req::SignOnchain),
        4 => (ch(), any::<bool>()).prop_map(|(ch, phase1)| Req::CSignPay { ch, phase1 }),
        5 => (ch(), n(), 0u8..2).prop_map(|(ch, n, variant)| Req::WireValidate { ch, n, variant }),
        4 => (0u8..2).prop_map(|h| Req::Invoice { h }),
        2 => (0u8..2).prop_map(|h| Req::IssueInvoice { h }),
        4 => (0u8..2).prop_map(|h| Req::Keysend { h }),
        3 => Just(Req::WireTipInfo),
    ]
}

/// request mix centred on the node-wide payment ledger
fn req_strat_pay() -> impl Strategy<Value = Req> {
    let ch = || 0u8..2;
    prop_oneof![
        10 => (ch(), any::<bool>()).prop_map(|(ch, phase1)| Req::CSignPay { ch, phase1 }),
        6 => (0u8..3).prop_map(|h| Req::ApproverKeysend { h }),
        5 => (0u8..2).prop_map(|h| Req::Keysend { h }),
        3 => (0u8..2).prop_map(|h| Req::Invoice { h }),
        2 => (0u8..2).prop_map(|h| Req::Approve { h }),
        2 => (ch(), 1u8..3, 0u8..2).prop_map(|(ch, n, variant)| Req::CSign { ch, n, variant }),
        1 => Just(Req::NodeBalance),
        1 => Just(Req::Heartbeat),
        1 => ch().prop_map(|ch| Req::ChanBalance { ch }),
    ]
}

/// request mix centred on node-wide queries next to per-channel state changes (a query must be a
/// consistent snapshot)
fn req_strat_snapshot() -> impl Strategy<Value = Req> {
    let ch = || 0u8..2;
    prop_oneof![
        6 => ch().prop_map(|ch| Req::HSignClose { ch }),
        2 => (ch(), 1u8..2, 0u8..2).prop_map(|(ch, n, variant)| Req::CSign { ch, n, variant }),
        6 => Just(Req::NodeBalance),
        1 => ch().prop_map(|ch| Req::ChanBalance { ch }),
        1 => Just(Req::Heartbeat),
    ]
}

/// request mix of the chain scenario: the requests that take the tracker, the channel map and the
/// monitors are over-represented
fn req_strat_chain() -> impl Strategy<Value = Req> {
    let ch = || 0u8..2;
    let n = || 1u8..3;
    prop_oneof![
        3 => (ch(), n(), 0u8..2).prop_map(|(ch, n, variant)| Req::HValidate { ch, n, variant }),
        2 => (ch(), n()).prop_map(|(ch, n)| Req::HRevoke { ch, n }),
        3 => (ch(), n(), 0u8..2).prop_map(|(ch, n, variant)| Req::CSign { ch, n, variant }),
        1 => (ch(), 0u8..2).prop_map(|(ch, n)| Req::CRevoke { ch, n }),
        3 => ch().prop_map(|ch| Req::ChanBalance { ch }),
        2 => Just(Req::NodeBalance),
        4 => Just(Req::Heartbeat),
        3 => ch().prop_map(|ch| Req::Forget { ch }),
        2 => (3u8..6).prop_map(|dbid| Req::NewChannel { dbid }),
        1 => (0u8..2).prop_map(|h| Req::Approve { h }),
        1 => Just(Req::Onchain),
        2 => Just(Req::AddBlock),
        4 => Just(Req::SignOnchain),
        4 => Just(Req::SetupStub),
        4 => Just(Req::StubCSign),
        6 => (0u8..4).prop_map(|ch| Req::AddBlockClose { ch }),
    ]
}

fn content(anchors: bool, n: u64, variant: u8) -> Content {
    // a received HTLC makes the variants differ; no invoice is needed for incoming value
    let htlcs = if n == 0 { vec![] } else { vec![Htlc { h: 2, sat: 20_000 + 5_000 * variant as u64, cltv: 1100 }] };
    let hs: u64 = htlcs.iter().map(|h| h.sat).sum();
    let weight = if anchors { 1124 } else { 724 } + 172 * htlcs.len() as u64;
    let fee = 1000 * weight / 1000 + if anchors { 660 } else { 0 };
    let to_cp = BASE_CP - hs;
    Content { feerate: 1000, to_holder: VALUE - to_cp - hs - fee, to_cp, offered: vec![], received: htlcs }
}

/// Commitment content of the chain scenario (balances as `open_funded` left them; the variants
/// differ by fee rate only, which needs no payment bookkeeping).
fn content_chain(outbound: bool, n: u64, variant: u8) -> Content {
    let rate = if n == 0 { 1000 } else { 1000 + 100 * variant as u32 + 10 * n as u32 };
    mk_content(false, outbound, VALUE, rate, 0, vec![], vec![])
}

struct Fresh {
    w: World,
    /// chain scenario: the holder commitment transaction (number 0) of each channel
    close_txs: Vec<Transaction>,
    chain: bool,
}

fn fresh(chain: bool) -> Fresh {
    if !chain {
        return Fresh { w: fresh_world(), close_txs: vec![], chain };
    }
    let mut w = World::new(regtest_cfg());
    let mut funded = vec![];
    for i in 0..2u64 {
        let mut spec = ChanSpec::basic(i + 1);
        spec.value_sat = VALUE;
        spec.outbound = i == 0;
        funded.push(open_funded(&mut w, &spec, &FundSpec { two_inputs: false, funding_first: true }));
    }
    // a stub for SetupStub (index 2 in w.chans)
    let mut sspec = ChanSpec::basic(9);
    sspec.value_sat = VALUE;
    sspec.outbound = false;
    match w.new_stub(&sspec) {
        Out::Ok(_) => {}
        o => panic!("harness: stub: {}", o.err_msg()),
    }
    // block 1 confirms both funding transactions
    let (tip, height) = {
        let t = w.node.get_tracker();
        (t.tip().0, t.height())
    };
    let block = make_block(&tip, height + 1, 0, funded.iter().map(|f| f.funding_tx.clone()).collect());
    match tracker_add(&w.node, &block, false, 0) {
        Deliver::Ok => {}
        o => panic!("harness: funding block refused: {:?}", o),
    }
    {
        let t = w.node.get_tracker();
        w.node.get_persister().update_tracker(&w.node.get_id(), &t).expect("persist tracker");
    }
    let mut close_txs = vec![];
    for f in funded.iter() {
        let c0 = f.content0.clone();
        let txs = ChanTxs::build(&w, f, (0, &c0), (0, &c0), None);
        close_txs.push(txs.commit("holder_commit").expect("holder commitment").tx.clone());
    }
    Fresh { w, close_txs, chain }
}

/// Fresh world in the fixed initial state: two channels, holder commitment 0 current
/// (next = 1), counterparty commitment 0 signed (next_commit = 1, next_revoke = 0).
fn fresh_world() -> World {
    let mut w = World::new(WorldCfg::default_testnet());
    let secp = w.secp.clone();
    for i in 0..2u64 {
        let mut spec = ChanSpec::basic(i + 1);
        spec.value_sat = VALUE;
        spec.push_msat = BASE_CP * 1000;
        spec.outbound = i == 0;
        let ci = w.open(&spec);
        let c0 = content(false, 0, 0);
        let s = w.chans[ci].cp_sign_holder(&secp, 0, &c0, SigKind::Valid);
        let id0 = w.chans[ci].id0.clone();
        w.node
            .with_channel(&id0, |ch| {
                ch.validate_holder_commitment_tx_phase2(0, c0.feerate, c0.to_holder, c0.to_cp, vec![], vec![], &s.commit_sig, &s.htlc_sigs)?;
                ch.activate_initial_commitment()
            })
            .expect("holder 0");
        let p0 = w.chans[ci].cp.point(&secp, 0);
        w.node.with_channel(&id0, |ch| ch.sign_counterparty_commitment_tx_phase2(&p0, 0, c0.feerate, c0.to_holder, c0.to_cp, vec![], vec![])).expect("cp 0");
    }
    // hash 0 is approved for 50 000 sat (see CSignPay)
    let payee = PublicKey::from_secret_key(&secp, &SecretKey::from_slice(&[5u8; 32]).unwrap());
    w.node.add_keysend(payee, phash(0), 50_000_000).expect("keysend approval");
    w
}

/// Everything a request needs, prepared outside the request itself (pure computations).
struct Ctx2 {
    node: lightning_signer::prelude::Arc<lightning_signer::node::Node>,
    ids: Vec<lightning_signer::channel::ChannelId>,
    chans: Vec<ChanData>,
    chain: bool,
    outbound: Vec<bool>,
    close_txs: Vec<Transaction>,
    /// (id, setup) of the stub of the chain scenario
    stub: Option<(lightning_signer::channel::ChannelId, lightning_signer::channel::ChannelSetup)>,
    /// counterparty point 0 and content of commitment 0 of the stub channel
    stub_c0: Option<(PublicKey, Content)>,
    approver: vls_protocol_signer::approver::VelocityApprover<vls_protocol_signer::approver::NegativeApprover>,
    /// the signer's clock at preparation time (invoice timestamps)
    now: std::time::Duration,
    /// channel handlers (protocol version 4) for the two channels, over the same node
    handlers: Vec<vls_protocol_signer::handler::ChannelHandler>,
    root: vls_protocol_signer::handler::RootHandler,
}

impl Ctx2 {
    fn content(&self, ci: usize, n: u64, variant: u8) -> Content {
        if self.chain {
            content_chain(self.outbound[ci], n, variant)
        } else {
            content(false, n, variant)
        }
    }
}

struct ChanData {
    /// CSignPay: content, counterparty commitment transaction 1 and its output witness scripts
    pay: Option<(Content, Transaction, Vec<Vec<u8>>)>,
    holder_sigs: Vec<Vec<(Content, bitcoin::secp256k1::ecdsa::Signature, Vec<bitcoin::secp256k1::ecdsa::Signature>)>>,
    /// serialised ValidateCommitmentTx2 per (n, variant)
    wire_validate: Vec<Vec<Vec<u8>>>,
    cp_points: Vec<PublicKey>,
    cp_secrets: Vec<SecretKey>,
}

/// ValidateCommitmentTx2 for (n, content) with the counterparty's signatures.
fn wire_validate_msg(ch: &Chan, n: u64, c: &Content, s: &CpSigned) -> vls_protocol::msgs::Message {
    use lightning_signer::bitcoin::sighash::EcdsaSighashType;
    use vls_protocol::model::{self, BitcoinSignature};
    use vls_protocol::msgs;
    use vls_protocol::serde_bolt::Array;
    let bsig = |s: &bitcoin::secp256k1::ecdsa::Signature, flag: EcdsaSighashType| BitcoinSignature { signature: model::Signature(s.serialize_compact()), sighash: flag as u8 };
    let mut v = vec![];
    // the handler reads side LOCAL as offered by the holder and REMOTE as received
    for (list, side) in [(&c.offered, model::Htlc::LOCAL), (&c.received, model::Htlc::REMOTE)] {
        for h in list.iter() {
            v.push(model::Htlc { side, amount: h.sat * 1000, payment_hash: model::Sha256(phash(h.h).0), ctlv_expiry: h.cltv });
        }
    }
    msgs::Message::ValidateCommitmentTx2(msgs::ValidateCommitmentTx2 {
        commitment_number: n,
        feerate: c.feerate,
        to_local_value_sat: c.to_holder,
        to_remote_value_sat: c.to_cp,
        htlcs: Array(v),
        signature: bsig(&s.commit_sig, EcdsaSighashType::All),
        htlc_signatures: Array(s.htlc_sigs.iter().map(|x| bsig(x, ch.htlc_sighash_type())).collect()),
    })
}

fn prepare(f: &Fresh) -> Ctx2 {
    let w = &f.w;
    let secp = w.secp.clone();
    let mut chans = vec![];
    for ci in 0..2 {
        let ch = &w.chans[ci];
        let mut holder_sigs = vec![];
        let mut wire_validate = vec![];
        for n in 0..3u64 {
            let mut per_variant = vec![];
            let mut per_variant_wire = vec![];
            for v in 0..2u8 {
                let c = if f.chain { content_chain(ch.spec.outbound, n, v) } else { content(false, n, v) };
                let s = ch.cp_sign_holder(&secp, n, &c, SigKind::Valid);
                per_variant_wire.push(wire_validate_msg(ch, n, &c, &s).inner().as_vec());
                per_variant.push((c, s.commit_sig, s.htlc_sigs));
            }
            holder_sigs.push(per_variant);
            wire_validate.push(per_variant_wire);
        }
        let pay = if f.chain {
            None
        } else {
            let mut c = content(false, 1, 0);
            c.received.clear();
            c.offered = vec![Htlc { h: 0, sat: 40_000, cltv: 1000 }];
            let weight = 724 + 172;
            let fee = 1000 * weight / 1000;
            c.to_cp = BASE_CP;
            c.to_holder = VALUE - BASE_CP - 40_000 - fee;
            let point = ch.cp.point(&secp, 1);
            let ctx = ch.ref_cp_commitment(&secp, 1, &point, &c);
            let ws = witscripts(ch, &secp, &ctx, false);
            Some((c, ctx.trust().built_transaction().transaction.clone(), ws))
        };
        chans.push(ChanData {
            pay,
            holder_sigs,
            wire_validate,
            cp_points: (0..3).map(|n| ch.cp.point(&secp, n)).collect(),
            cp_secrets: (0..3).map(|n| ch.cp.secret(n)).collect(),
        });
    }
    // a root handler over the same node, protocol version 4 negotiated (the signer's maximum)
    let handlers = {
        use vls_protocol::model;
        use vls_protocol::msgs::{self, Message};
        use vls_protocol_signer::handler::{Handler, InitHandler, RootHandler};
        let mut init = InitHandler::new(0, w.node.clone(), lightning_signer::prelude::Arc::new(vls_protocol_signer::approver::PositiveApprover()), 4);
        let m = Message::HsmdInit(msgs::HsmdInit {
            key_version: model::Bip32KeyVersion { pubkey_version: 0x0488b21e, privkey_version: 0x0488ade4 },
            chain_params: bitcoin::blockdata::constants::genesis_block(w.cfg.network).block_hash(),
            encryption_key: None,
            dev_privkey: None,
            dev_bip32_seed: None,
            dev_channel_secrets: None,
            dev_channel_secrets_shaseed: None,
            hsm_wire_min_version: msgs::MIN_PROTOCOL_VERSION,
            hsm_wire_max_version: msgs::DEFAULT_MAX_PROTOCOL_VERSION,
        });
        let (done, _reply) = init.handle(msgs::from_vec(m.inner().as_vec()).expect("init message")).expect("handshake");
        assert!(done, "handshake not complete");
        let root: RootHandler = init.into();
        let hs = (0..2).map(|ci| root.for_new_client(ci as u64 + 1, model::PubKey(peer_id(w.chans[ci].spec.peer)), w.chans[ci].spec.dbid)).collect::<Vec<_>>();
        (hs, root)
    };
    let (handlers, root) = handlers;
    Ctx2 {
        root,
        now: {
            use lightning_signer::util::clock::Clock;
            std::time::Duration::from_secs(w.clock.now().as_secs())
        },
        handlers,
        node: w.node.clone(),
        ids: w.chans.iter().map(|c| c.id0.clone()).collect(),
        chans,
        chain: f.chain,
        outbound: w.chans.iter().map(|c| c.spec.outbound).collect(),
        close_txs: f.close_txs.clone(),
        stub: if f.chain { w.chans.get(2).map(|c| (c.id0.clone(), c.setup.clone())) } else { None },
        stub_c0: if f.chain { w.chans.get(2).map(|c| (c.cp.point(&secp, 0), content_chain(c.spec.outbound, 0, 0))) } else { None },
        approver: vls_protocol_signer::approver::VelocityApprover::new(
            w.clock.clone(),
            lightning_signer::util::velocity::VelocityControl::new(lightning_signer::util::velocity::VelocityControlSpec {
                limit_msat: 1_000_000,
                interval_type: lightning_signer::util::velocity::VelocityControlIntervalType::Hourly,
            }),
            vls_protocol_signer::approver::NegativeApprover(),
        ),
    }
}

fn st(r: Result<String, Status>) -> String {
    match r {
        Ok(s) => format!("ok:{}", s),
        Err(_) => "err".to_string(),
    }
}

/// Execute one request; the reply is reduced to a comparable string.
fn exec(cx: &Ctx2, r: &Req) -> String {
    let node = &cx.node;
    match r {
        Req::HValidate { ch, n, variant } => {
            let ci = *ch as usize % 2;
            let (c, cs, hs) = &cx.chans[ci].holder_sigs[*n as usize % 3][*variant as usize % 2];
            let (o, rr) = (to_info2(&c.offered), to_info2(&c.received));
            st(node.with_channel(&cx.ids[ci], |chn| chn.validate_holder_commitment_tx_phase2(*n as u64, c.feerate, c.to_holder, c.to_cp, o.clone(), rr.clone(), cs, hs)).map(|_| String::new()))
        }
        Req::HRevoke { ch, n } => {
            let ci = *ch as usize % 2;
            st(node.with_channel(&cx.ids[ci], |chn| chn.revoke_previous_holder_commitment(*n as u64)).map(|(p, s)| format!("{}:{}", p, s.map(|x| hex::encode(x.secret_bytes())).unwrap_or_default())))
        }
        Req::HSecret { ch, n } => {
            let ci = *ch as usize % 2;
            st(node.with_channel(&cx.ids[ci], |chn| chn.get_per_commitment_secret(*n as u64)).map(|s| hex::encode(s.secret_bytes())))
        }
        Req::CSign { ch, n, variant } => {
            let ci = *ch as usize % 2;
            let c = cx.content(ci, *n as u64, *variant);
            let p = cx.chans[ci].cp_points[*n as usize % 3];
            let (cpo, cpr) = (to_info2(&c.received), to_info2(&c.offered));
            st(node.with_channel(&cx.ids[ci], |chn| chn.sign_counterparty_commitment_tx_phase2(&p, *n as u64, c.feerate, c.to_holder, c.to_cp, cpo.clone(), cpr.clone())).map(|(s, h)| format!("{}:{}", s, h.len())))
        }
        Req::CRevoke { ch, n } => {
            let ci = *ch as usize % 2;
            let s = cx.chans[ci].cp_secrets[*n as usize % 3];
            st(node.with_channel(&cx.ids[ci], |chn| chn.validate_counterparty_revocation(*n as u64, &s)).map(|_| String::new()))
        }
        Req::ChanBalance { ch } => {
            let ci = *ch as usize % 2;
            st(node.with_channel(&cx.ids[ci], |chn| Ok(chn.balance())).map(|b| format!("{:?}", b)))
        }
        Req::NodeBalance => format!("ok:{:?}", node.channel_balance()),
        Req::Heartbeat => {
            let hb = node.get_heartbeat();
            format!("ok:{}", hb.heartbeat.chain_height)
        }
        Req::Forget { ch } => {
            let ci = *ch as usize % 2;
            st(node.forget_channel(&cx.ids[ci]).map(|_| String::new()))
        }
        Req::NewChannel { dbid } => st(node.new_channel(*dbid as u64, &peer_id(1), node).map(|(id, _)| hex::encode(id.as_slice()))),
        Req::Approve { h } => {
            let payee = PublicKey::from_secret_key(&bitcoin::secp256k1::Secp256k1::new(), &SecretKey::from_slice(&[5u8; 32]).unwrap());
            st(node.add_keysend(payee, phash(*h), 50_000_000).map(|b| b.to_string()))
        }
        Req::Onchain => {
            let path: DerivationPath = vec![ChildNumber::from_normal_idx(1).unwrap()].into();
            let spk = node.get_native_address(&path).unwrap().script_pubkey();
            let tx = Transaction {
                version: Version::TWO,
                lock_time: LockTime::ZERO,
                input: vec![TxIn { previous_output: OutPoint { txid: Txid::from_byte_array([0x20; 32]), vout: 0 }, script_sig: ScriptBuf::new(), sequence: Sequence::MAX, witness: Witness::new() }],
                output: vec![TxOut { value: Amount::from_sat(999_850), script_pubkey: spk.clone() }],
            };
            let prev = vec![TxOut { value: Amount::from_sat(1_000_000), script_pubkey: spk }];
            match node.check_onchain_tx(&tx, &[true], &prev, &[None], &[path]) {
                Ok(()) => "ok:".into(),
                Err(_) => "err".into(),
            }
        }
        Req::AddBlock => {
            let mut tracker = node.get_tracker();
            let (header, proof) = make_testnet_header(tracker.tip(), tracker.height());
            match tracker.add_block(header, proof) {
                Ok(_) => {
                    node.get_persister().update_tracker(&node.get_id(), &tracker).expect("persist tracker");
                    "ok:".into()
                }
                Err(_) => "err".into(),
            }
        }
        Req::SignOnchain => {
            let path: DerivationPath = vec![ChildNumber::from_normal_idx(1).unwrap()].into();
            let spk = node.get_native_address(&path).unwrap().script_pubkey();
            let tx = Transaction {
                version: Version::TWO,
                lock_time: LockTime::ZERO,
                input: vec![TxIn { previous_output: OutPoint { txid: Txid::from_byte_array([0x21; 32]), vout: 0 }, script_sig: ScriptBuf::new(), sequence: Sequence::MAX, witness: Witness::new() }],
                output: vec![TxOut { value: Amount::from_sat(999_850), script_pubkey: spk.clone() }],
            };
            let prev = vec![TxOut { value: Amount::from_sat(1_000_000), script_pubkey: spk }];
            st(node.unchecked_sign_onchain_tx(&tx, &[path], &prev, vec![None]).map(|w| format!("{:x}", hash_of(&w))))
        }
        Req::SetupStub => match &cx.stub {
            None => "err".into(),
            Some((id0, setup)) => st(node.setup_channel(id0.clone(), None, setup.clone(), &DerivationPath::master()).map(|_| String::new())),
        },
        Req::AddBlockClose { ch } => {
            if !cx.chain {
                return exec(cx, &Req::AddBlock);
            }
            let ci = *ch as usize % 2;
            // as the protocol handler does: the tracker stays locked from the request to the persist
            let mut tracker = node.get_tracker();
            let height = tracker.height() + 1;
            let block = make_block(&tracker.tip().0, height, 7, vec![cx.close_txs[ci].clone()]);
            let (txids, outpoints) = tracker.get_all_forward_watches();
            // ch >= 2: the block is streamed (block_chunk feeds the monitors' push decoders)
            let proof = make_proof(&block, &tracker.tip().1, height, &txids, &outpoints, *ch >= 2);
            if proof.proof.is_external() {
                if tracker.block_chunk(block.block_hash(), 0, &serialize(&block)).is_err() {
                    return "err".into();
                }
            }
            match tracker.add_block(block.header, proof) {
                Ok(_) => {
                    node.get_persister().update_tracker(&node.get_id(), &tracker).expect("persist tracker");
                    "ok:".into()
                }
                Err(_) => "err".into(),
            }
        }
        Req::StubCSign => match (&cx.stub, &cx.stub_c0) {
            (Some((id0, _)), Some((p0, c))) => {
                st(node.with_channel(id0, |chn| chn.sign_counterparty_commitment_tx_phase2(p0, 0, c.feerate, c.to_holder, c.to_cp, vec![], vec![])).map(|(s, h)| format!("{}:{}", s, h.len())))
            }
            _ => "err".into(),
        },
        Req::ApproverKeysend { h } => {
            use vls_protocol_signer::approver::Approve;
            let payee = PublicKey::from_secret_key(&bitcoin::secp256k1::Secp256k1::new(), &SecretKey::from_slice(&[5u8; 32]).unwrap());
            match cx.approver.handle_proposed_keysend(node, payee, phash(20 + *h), 600_000) {
                Ok(b) => format!("ok:{}", b),
                Err(_) => "err".into(),
            }
        }
        Req::Keysend { h } => {
            use vls_protocol_signer::approver::Approve;
            let payee = PublicKey::from_secret_key(&bitcoin::secp256k1::Secp256k1::new(), &SecretKey::from_slice(&[5u8; 32]).unwrap());
            match vls_protocol_signer::approver::PositiveApprover().handle_proposed_keysend(node, payee, phash(10 + *h), 30_000_000) {
                Ok(b) => format!("ok:{}", b),
                Err(_) => "err".into(),
            }
        }
        Req::WireTipInfo => {
            use vls_protocol_signer::handler::Handler;
            let msg = vls_protocol::msgs::from_vec(vls_protocol::msgs::Message::TipInfo(vls_protocol::msgs::TipInfo {}).inner().as_vec()).expect("request survives the wire");
            match cx.root.handle(msg) {
                Ok(rep) => match rep.as_any().downcast_ref::<vls_protocol::msgs::TipInfoReply>() {
                    Some(r) => format!("ok:{}:{}", r.height, r.block_hash),
                    None => "ok:?".into(),
                },
                Err(_) => "err".into(),
            }
        }
        Req::Invoice { h } => {
            use lightning_signer::bitcoin::hashes::sha256::Hash as Sha256;
            use lightning_signer::lightning::types::payment::PaymentSecret;
            use lightning_signer::lightning_invoice::{Currency, InvoiceBuilder};
            let key = SecretKey::from_slice(&[42; 32]).unwrap();
            let inv = InvoiceBuilder::new(if cx.chain { Currency::Regtest } else { Currency::BitcoinTestnet })
                .description("c20".into())
                .payment_hash(Sha256::from_byte_array(phash(10 + *h).0))
                .payment_secret(PaymentSecret([*h; 32]))
                .duration_since_epoch(cx.now)
                .min_final_cltv_expiry_delta(144)
                .amount_milli_satoshis(30_000_000)
                .build_signed(|hash| bitcoin::secp256k1::Secp256k1::new().sign_ecdsa_recoverable(hash, &key))
                .expect("invoice");
            st(node.add_invoice(lightning_signer::invoice::Invoice::Bolt11(inv)).map(|b| b.to_string()))
        }
        Req::IssueInvoice { h } => {
            use lightning_signer::bitcoin::hashes::sha256::Hash as Sha256;
            use lightning_signer::lightning::types::payment::PaymentSecret;
            use lightning_signer::lightning_invoice::{Currency, InvoiceBuilder};
            let raw = InvoiceBuilder::new(if cx.chain { Currency::Regtest } else { Currency::BitcoinTestnet })
                .description("c20 issued".into())
                .payment_hash(Sha256::from_byte_array(phash(14 + *h).0))
                .payment_secret(PaymentSecret([*h; 32]))
                .duration_since_epoch(cx.now)
                .min_final_cltv_expiry_delta(144)
                .amount_milli_satoshis(20_000_000)
                .build_raw()
                .expect("raw invoice");
            st(node.sign_bolt11_invoice(raw).map(|_| String::new()))
        }
        Req::WireValidate { ch, n, variant } => {
            use vls_protocol_signer::handler::Handler;
            let ci = *ch as usize % 2;
            let bytes = cx.chans[ci].wire_validate[*n as usize % 3][*variant as usize % 2].clone();
            let msg = vls_protocol::msgs::from_vec(bytes).expect("request survives the wire");
            match cx.handlers[ci].handle(msg) {
                Ok(rep) => format!("ok:{}", hex::encode(rep.as_vec())),
                Err(_) => "err".to_string(),
            }
        }
        Req::HSignClose { ch } => {
            let ci = *ch as usize % 2;
            st(node.with_channel(&cx.ids[ci], |chn| chn.sign_holder_commitment_tx_phase2(0)).map(|s| format!("{}", s)))
        }
        Req::CSignPay { ch, phase1 } => {
            let ci = *ch as usize % 2;
            let Some((c, tx, ws)) = &cx.chans[ci].pay else { return "err".into() };
            let p = cx.chans[ci].cp_points[1];
            let (cpo, cpr) = (to_info2(&c.received), to_info2(&c.offered));
            if *phase1 {
                st(node.with_channel(&cx.ids[ci], |chn| chn.sign_counterparty_commitment_tx(tx, ws, &p, 1, c.feerate, cpo.clone(), cpr.clone())).map(|s| format!("{}", s)))
            } else {
                st(node.with_channel(&cx.ids[ci], |chn| chn.sign_counterparty_commitment_tx_phase2(&p, 1, c.feerate, c.to_holder, c.to_cp, cpo.clone(), cpr.clone())).map(|(s, h)| format!("{}:{}", s, h.len())))
            }
        }
        Req::Allowlist { k } => {
            let a = ["address:tb1qw508d6qejxtdg4y5r3zarvary0c5xw7kxpjzsx", "address:tb1qrp33g0q5c5txsp9arysrx4k6zdkfs4nce4xj0gdcccefvpysxf3q0sl5k7"][*k as usize % 2];
            st(node.add_allowlist(&[a.to_string()]).map(|_| String::new()))
        }
    }
}

/// Final observable state as one string (order-independent parts sorted).
fn final_state(w: &World) -> String {
    let node = &w.node;
    let mut parts: Vec<String> = vec![];
    {
        let chans = node.get_channels();
        for (id, slot) in chans.iter() {
            let g = slot.lock().unwrap();
            match &*g {
                ChannelSlot::Stub(_) => parts.push(format!("{}:stub", hex::encode(id.as_slice()))),
                ChannelSlot::Ready(c) => parts.push(format!("{}:{}:{}", hex::encode(id.as_slice()), serde_json::to_string(&c.enforcement_state).unwrap(), c.monitor.forget_seen())),
            }
        }
    }
    {
        let s = node.get_state();
        let mut inv: Vec<String> = s.invoices.keys().map(|h| hex::encode(h.0)).collect();
        inv.sort();
        let mut pays: Vec<String> = s.payments.iter().map(|(h, p)| format!("{}:{:?}:{:?}", hex::encode(h.0), p.incoming, p.outgoing)).collect();
        pays.sort();
        parts.push(format!("inv={:?} pays={:?} hwm={} fee_v={} vel={}", inv, pays, s.dbid_high_water_mark, s.fee_velocity_control.velocity(), s.velocity_control.velocity()));
    }
    parts.push(format!("allow={:?}", node.allowlist().unwrap()));
    parts.push(format!("height={}", node.get_tracker().height()));
    // the store entries are compared as JSON values in which lists of [key, value] pairs (the
    // serialised form of the signer's hash maps, whose iteration order depends on the order of
    // insertion) are sorted by key: the order of such a list is not state
    let dump: Vec<(String, u64, Vec<u8>)> = w
        .store_dump()
        .into_iter()
        .map(|(k, v, val)| match serde_json::from_slice::<serde_json::Value>(&val) {
            Ok(j) => (k, v, serde_json::to_vec(&canonical_json(j)).unwrap_or(val)),
            Err(_) => (k, v, val),
        })
        .collect();
    parts.push(format!("store={:x}", hash_of(&dump)));
    if std::env::var("VERIF_DEBUG").is_ok() {
        for (k, v, val) in dump.iter() {
            parts.push(format!("  entry {} v{} {}", k, v, String::from_utf8_lossy(val)));
        }
    }
    parts.join("|")
}

fn canonical_json(v: serde_json::Value) -> serde_json::Value {
    use serde_json::Value;
    match v {
        Value::Array(items) => {
            let mut items: Vec<Value> = items.into_iter().map(canonical_json).collect();
            let pairs = !items.is_empty() && items.iter().all(|i| matches!(i, Value::Array(p) if p.len() == 2 && p[0].is_string()));
            if pairs {
                items.sort_by_key(|i| i.as_array().map(|p| p[0].to_string()).unwrap_or_default());
            }
            Value::Array(items)
        }
        Value::Object(m) => Value::Object(m.into_iter().map(|(k, v)| (k, canonical_json(v))).collect()),
        other => other,
    }
}

#[derive(Clone, Debug, PartialEq, Eq, PartialOrd, Ord)]
struct Outcome {
    replies: Vec<Vec<String>>,
    state: String,
}

/// all interleavings of the threads' request sequences
fn interleavings(lens: &[usize]) -> Vec<Vec<usize>> {
    fn rec(lens: &[usize], pos: &mut Vec<usize>, cur: &mut Vec<usize>, out: &mut Vec<Vec<usize>>) {
        if pos.iter().zip(lens.iter()).all(|(p, l)| p == l) {
            out.push(cur.clone());
            return;
        }
        for t in 0..lens.len() {
            if pos[t] < lens[t] {
                pos[t] += 1;
                cur.push(t);
                rec(lens, pos, cur, out);
                cur.pop();
                pos[t] -= 1;
            }
        }
    }
    let mut out = vec![];
    rec(lens, &mut vec![0; lens.len()], &mut vec![], &mut out);
    out
}

fn shuttle_config() -> shuttle::Config {
    let mut c = shuttle::Config::new();
    c.stack_size = 0x40_0000;
    c.failure_persistence = shuttle::FailurePersistence::None;
    c.silence_warnings = true;
    c
}

pub struct C20;

impl Prop for C20 {
    type Case = Case;
    fn id(&self) -> &'static str {
        "C20"
    }
    fn rule(&self) -> String {
        "programs of 2-3 threads x 1-2 requests (at most 5 requests) with arguments fixed by the program, on a node with two channels in a \
         fixed initial state: holder validate / revoke / secret and counterparty sign / revocation for explicit commitment numbers and content \
         variants on the same or different channels, per-channel balance (node state under the slot lock), node balance (channel map, slots, \
         node state), heartbeat, forget_channel, new_channel, keysend approval, on-chain check, block add, allowlist add. proptest generates \
         the program; shuttle (vls-core compiled with --cfg vls_verif so that its Mutex/Arc are shuttle's) explores 60 (quick) / 400 \
         (thorough) schedules per program with the random or the PCT (depth 3) scheduler under a fixed seed. Oracle: no schedule ends in a \
         deadlock or a panic; the per-thread reply sequences and the final state (all channels' enforcement state and forget flag, \
         invoices, payments, high-water mark, velocity totals, allowlist, chain height, store dump) equal those of one of the sequential \
         interleavings of the same requests, each executed on a fresh world. Non-trivial: programs in which two threads touch a common lock \
         class (same channel, or a node-wide request next to any other); distinct by (request multiset, shared-object pattern)."
            .into()
    }
    fn assumptions(&self) -> Vec<String> {
        vec![
            "schedules are sampled, not enumerated; 'completes under every schedule' means terminates in every explored schedule".into(),
            "arguments are fixed by the program (not read from the state at execution time), so a sequential witness exists for every atomic execution".into(),
            "the hook replaces std::sync with shuttle::sync inside vls-core and everything that imports its prelude; timing-dependent behaviour outside those primitives is not modelled".into(),
        ]
    }
    fn cases(&self, tier: Tier) -> u32 {
        tier.pick(30, 120)
    }
    fn min_nontrivial(&self, tier: Tier) -> usize {
        tier.pick(40, 200)
    }
    fn max_shrink_iters(&self) -> u32 {
        60
    }
    fn strategy(&self, _tier: Tier) -> BoxedStrategy<Case> {
        fn trim(mut threads: Vec<Vec<Req>>) -> Vec<Vec<Req>> {
            // at most 5 requests in total
            while threads.iter().map(|t| t.len()).sum::<usize>() > 5 {
                let i = threads.iter().enumerate().max_by_key(|(_, t)| t.len()).map(|(i, _)| i).unwrap();
                threads[i].pop();
            }
            // the same keysend proposed through the approver by two threads at once is a recorded
            // finding (kept as a fixed case): generated programs use distinct hashes across threads
            let mut owner: std::collections::BTreeMap<u8, usize> = Default::default();
            let mut fresh = 3u8;
            for (ti, t) in threads.iter_mut().enumerate() {
                for r in t.iter_mut() {
                    if let Req::ApproverKeysend { h } = r {
                        match owner.get(h) {
                            Some(o) if *o != ti => {
                                *h = fresh;
                                fresh += 1;
                                owner.insert(*h, ti);
                            }
                            _ => {
                                owner.insert(*h, ti);
                            }
                        }
                    }
                }
            }
            // a commitment transaction confirms once: at most one AddBlockClose per channel
            let mut seen = BTreeSet::new();
            for t in threads.iter_mut() {
                for r in t.iter_mut() {
                    if let Req::AddBlockClose { ch } = r {
                        if !seen.insert(*ch % 2) {
                            *r = Req::AddBlock;
                        }
                    }
                }
            }
            threads
        }
        let plain = (proptest::collection::vec(proptest::collection::vec(req_strat(), 1..3), 2..4), any::<bool>(), any::<u64>())
            .prop_map(|(threads, pct, sched_seed)| Case { threads: trim(threads), pct, sched_seed, chain: false });
        let chain = (proptest::collection::vec(proptest::collection::vec(req_strat_chain(), 1..3), 2..4), any::<bool>(), any::<u64>())
            .prop_map(|(threads, pct, sched_seed)| Case { threads: trim(threads), pct, sched_seed, chain: true });
        let pay = (proptest::collection::vec(proptest::collection::vec(req_strat_pay(), 1..3), 2..4), any::<bool>(), any::<u64>())
            .prop_map(|(threads, pct, sched_seed)| Case { threads: trim(threads), pct, sched_seed, chain: false });
        let snapshot = (proptest::collection::vec(proptest::collection::vec(req_strat_snapshot(), 1..3), 2..4), any::<bool>(), any::<u64>())
            .prop_map(|(threads, pct, sched_seed)| Case { threads: trim(threads), pct, sched_seed, chain: false });
        prop_oneof![3 => plain, 3 => chain, 2 => pay, 2 => snapshot].boxed()
    }

    fn fixed_cases(&self) -> Vec<Case> {
        vec![
            Case { threads: vec![vec![Req::ApproverKeysend { h: 0 }], vec![Req::ApproverKeysend { h: 0 }]], pct: false, sched_seed: 11, chain: false },
            // two allowlist additions at once (admin request and approver): memory and store must
            // end up with both, as in either sequential order
            Case { threads: vec![vec![Req::Allowlist { k: 0 }], vec![Req::Allowlist { k: 1 }]], pct: false, sched_seed: 12, chain: false },
            // a chain follower asking for the tip while a block is connected
            Case { threads: vec![vec![Req::WireTipInfo], vec![Req::AddBlock]], pct: false, sched_seed: 13, chain: false },
            // the same keysend, and an invoice against a keysend for one hash, proposed at once
            Case { threads: vec![vec![Req::Keysend { h: 0 }], vec![Req::Keysend { h: 0 }]], pct: false, sched_seed: 14, chain: false },
            Case { threads: vec![vec![Req::Keysend { h: 1 }], vec![Req::Invoice { h: 1 }]], pct: false, sched_seed: 15, chain: false },
        ]
    }

    fn run(&self, case: &Case, stt: &mut CaseStats, ctx: &Ctx) -> Result<(), Violation> {
        let iterations = ctx.tier.pick(60usize, 400usize);
        let chain = case.chain;
        let threads = case.threads.clone();
        let lens: Vec<usize> = threads.iter().map(|t| t.len()).collect();
        let has_forget = threads.iter().flatten().any(|r| matches!(r, Req::Forget { .. }));

        // (ii) sequential outcomes, each inside shuttle (single task)
        let orders = interleavings(&lens);
        let seq_out: std::sync::Arc<std::sync::Mutex<BTreeSet<Outcome>>> = std::sync::Arc::new(std::sync::Mutex::new(BTreeSet::new()));
        {
            let threads = threads.clone();
            let seq_out2 = seq_out.clone();
            let orders2 = orders.clone();
            let r = catch_unwind(AssertUnwindSafe(|| {
                shuttle::Runner::new(RandomScheduler::new_from_seed(1, 1), shuttle_config()).run(move || {
                    for order in orders2.iter() {
                        let f = fresh(chain);
                        let cx = prepare(&f);
                        let w = &f.w;
                        let mut pos = vec![0usize; threads.len()];
                        let mut replies: Vec<Vec<String>> = vec![vec![]; threads.len()];
                        for t in order {
                            let r = &threads[*t][pos[*t]];
                            pos[*t] += 1;
                            replies[*t].push(exec(&cx, r));
                        }
                        let state = format!("{}|approver={}", final_state(w), cx.approver.control().velocity());
                        seq_out2.lock().unwrap().insert(Outcome { replies, state });
                    }
                });
            }));
            if let Err(e) = r {
                let msg = e.downcast_ref::<String>().cloned().or(e.downcast_ref::<&str>().map(|s| s.to_string())).unwrap_or_default();
                // a sequential execution that panics is not a concurrency matter
                stt.class("sequential_execution_panicked");
                let _ = msg;
                return Ok(());
            }
        }
        let seq = seq_out.lock().unwrap().clone();
        if std::env::var("VERIF_DEBUG").is_ok() {
            for o in seq.iter() {
                eprintln!("sequential outcome: replies {:?}", o.replies);
            }
        }

        // (i) + (ii) concurrent executions
        let bad: std::sync::Arc<std::sync::Mutex<Option<Outcome>>> = std::sync::Arc::new(std::sync::Mutex::new(None));
        let executed = std::sync::Arc::new(std::sync::atomic::AtomicUsize::new(0));
        let run_result = {
            let threads = threads.clone();
            let seq2 = seq.clone();
            let bad2 = bad.clone();
            let executed2 = executed.clone();
            let body = move || {
                let f = fresh(chain);
                let cx = lightning_signer::prelude::Arc::new(prepare(&f));
                let w = &f.w;
                let mut handles = vec![];
                for reqs in threads.iter() {
                    let cx = cx.clone();
                    let reqs = reqs.clone();
                    handles.push(shuttle::thread::spawn(move || reqs.iter().map(|r| exec(&cx, r)).collect::<Vec<String>>()));
                }
                let replies: Vec<Vec<String>> = handles.into_iter().map(|h| h.join().unwrap()).collect();
                let state = format!("{}|approver={}", final_state(w), cx.approver.control().velocity());
                let o = Outcome { replies, state };
                executed2.fetch_add(1, std::sync::atomic::Ordering::Relaxed);
                if !seq2.contains(&o) {
                    let mut g = bad2.lock().unwrap();
                    if g.is_none() {
                        *g = Some(o);
                    }
                }
            };
            catch_unwind(AssertUnwindSafe(|| {
                if case.pct {
                    shuttle::Runner::new(PctScheduler::new_from_seed(case.sched_seed, 3, iterations), shuttle_config()).run(body)
                } else {
                    shuttle::Runner::new(RandomScheduler::new_from_seed(case.sched_seed, iterations), shuttle_config()).run(body)
                }
            }))
        };
        stt.class_n("schedules_executed", executed.load(std::sync::atomic::Ordering::Relaxed) as u64);
        stt.class(if case.pct { "pct_scheduler" } else { "random_scheduler" });
        stt.class(if case.chain { "chain_scenario" } else { "plain_scenario" });
        stt.sample = Some(json!({"threads": case.threads, "pct": case.pct, "sched_seed": case.sched_seed, "chain": case.chain, "sequential_outcomes": seq.len()}));

        // shared-object pattern
        let mut shared = false;
        for (i, a) in threads.iter().enumerate() {
            for b in threads.iter().skip(i + 1) {
                for x in a.iter() {
                    for y in b.iter() {
                        let cx = |r: &Req| match r {
                            Req::HValidate { ch, .. } | Req::HRevoke { ch, .. } | Req::HSecret { ch, .. } | Req::CSign { ch, .. } | Req::CRevoke { ch, .. } | Req::ChanBalance { ch } | Req::Forget { ch } | Req::HSignClose { ch } => Some(*ch % 2),
                            _ => None,
                        };
                        match (cx(x), cx(y)) {
                            (Some(p), Some(q)) => shared |= p == q,
                            _ => shared = true,
                        }
                    }
                }
            }
        }
        let mut multiset: Vec<String> = threads.iter().flatten().map(|r| format!("{:?}", r).split(|c| c == ' ' || c == '{').next().unwrap_or("").to_string()).collect();
        multiset.sort();

        match run_result {
            Err(e) => {
                let msg = e.downcast_ref::<String>().cloned().or(e.downcast_ref::<&str>().map(|s| s.to_string())).unwrap_or_else(|| "panic".into());
                let is_deadlock = msg.contains("deadlock");
                let sig = if is_deadlock {
                    // name the deadlock by the smallest pair of requests (one per thread) that
                    // deadlocks on its own, so that the signature does not depend on bystanders
                    let kind = |r: &Req| format!("{:?}", r).split(|c| c == ' ' || c == '{').next().unwrap_or("").to_string();
                    let mut pair: Option<String> = None;
                    'outer: for (i, a) in threads.iter().enumerate() {
                        for b in threads.iter().skip(i + 1) {
                            for x in a.iter() {
                                for y in b.iter() {
                                    let prog = vec![vec![x.clone()], vec![y.clone()]];
                                    let body = move || {
                                        let f = fresh(chain);
                                        let cx = lightning_signer::prelude::Arc::new(prepare(&f));
                                        let hs: Vec<_> = prog.iter().map(|reqs| {
                                            let cx = cx.clone();
                                            let reqs = reqs.clone();
                                            shuttle::thread::spawn(move || reqs.iter().map(|r| exec(&cx, r)).collect::<Vec<String>>())
                                        }).collect();
                                        for h in hs {
                                            let _ = h.join();
                                        }
                                    };
                                    let r = catch_unwind(AssertUnwindSafe(|| shuttle::Runner::new(RandomScheduler::new_from_seed(7, 300), shuttle_config()).run(body)));
                                    if let Err(e) = r {
                                        let m = e.downcast_ref::<String>().cloned().or(e.downcast_ref::<&str>().map(|s| s.to_string())).unwrap_or_default();
                                        if m.contains("deadlock") {
                                            let mut k = vec![kind(x), kind(y)];
                                            k.sort();
                                            pair = Some(k.join("+"));
                                            break 'outer;
                                        }
                                    }
                                }
                            }
                        }
                    }
                    match pair {
                        Some(p) => format!("C20:deadlock:{}", p),
                        None => if has_forget { "C20:deadlock:program-with-forget_channel".to_string() } else { "C20:deadlock:other".to_string() },
                    }
                } else {
                    "C20:panic-under-concurrency".to_string()
                };
                ctx.report(stt, Violation::new(sig, format!("program {:?} ({} scheduler, seed {}): {}", case.threads, if case.pct { "pct" } else { "random" }, case.sched_seed, msg.chars().take(600).collect::<String>())))?;
            }
            Ok(_) => {
                if let Some(o) = bad.lock().unwrap().clone() {
                    if std::env::var("VERIF_DEBUG").is_ok() {
                        eprintln!("concurrent state: {}", o.state);
                        for so in seq.iter().filter(|so| so.replies == o.replies) {
                            eprintln!("sequential state with the same replies: {}", so.state);
                        }
                    }
                    // the one recorded finding: the same keysend proposed through the approver by two
                        // threads at once (and nothing else in the program)
                        let all_ak = threads.iter().flatten().all(|r| matches!(r, Req::ApproverKeysend { .. }));
                        let mut dup_across = false;
                        for (i, a) in threads.iter().enumerate() {
                            for b in threads.iter().skip(i + 1) {
                                dup_across |= a.iter().any(|x| b.contains(x));
                            }
                        }
                        let sig = if all_ak && dup_across { "C20:outcome-not-sequentially-explainable:same-keysend-proposed-twice-through-approver" } else { "C20:outcome-not-sequentially-explainable" };
                    ctx.report(stt, Violation::new(
                        sig,
                        format!("program {:?}: a schedule produced replies {:?} and a final state that no sequential interleaving ({} tried) produces", case.threads, o.replies, orders.len()),
                    ))?;
                }
            }
        }
        if shared {
            stt.nontrivial_shape((multiset, shared, lens, case.chain));
        }
        Ok(())
    }
}
