//! C07 — mutual close pays the holder its due to an owned or allowlisted destination.
//!
//! accepted ⇒ reference predicate over the ledger of current commitments, the proposal as
//! generated (labelled outputs) and the allowlist at signing time; signature verifies against the
//! canonical closing transaction; the channel is closed afterwards in memory and in the store.

use crate::engine::*;
use crate::props::holder::{finish_content, short_err};
use crate::world::*;
use lightning_signer::bitcoin;
use lightning_signer::bitcoin::bip32::{ChildNumber, DerivationPath, Xpriv, Xpub};
use lightning_signer::bitcoin::key::UntweakedPublicKey;
use lightning_signer::bitcoin::secp256k1::ecdsa::Signature;
use lightning_signer::bitcoin::secp256k1::{PublicKey, SecretKey};
use lightning_signer::bitcoin::{Address, CompressedPublicKey, Network, ScriptBuf, Transaction};
use lightning_signer::lightning::ln::chan_utils::ClosingTransaction;
use proptest::prelude::*;
use serde::{Deserialize, Serialize};
use serde_json::json;

const EPS: u64 = 10_000; // default policy epsilon_sat
const VALUE: u64 = 5_000_000;
const BASE_CP: u64 = 1_500_000;

#[derive(Clone, Debug, Serialize, Deserialize, PartialEq, Eq, Hash)]
pub enum ScriptKind {
    WalletP2wpkh,
    WalletP2sh,
    WalletP2tr,
    /// a wallet address, but the path hint given points elsewhere
    WalletWrongPath,
    /// a script that is on the allowlist (if still there at signing time)
    Allowlisted,
    /// derived from the allowlisted xpub with the supplied path
    XpubDerived,
    Foreign,
    /// no holder output
    Absent,
}

#[derive(Clone, Debug, Serialize, Deserialize, PartialEq, Eq, Hash)]
pub enum Upfront {
    None,
    Wallet,
    Allowlisted,
}

#[derive(Clone, Debug, Serialize, Deserialize, PartialEq, Eq, Hash)]
pub enum Delta {
    Zero,
    EpsMinus1,
    Eps,
    EpsPlus1,
    Big,
}

impl Delta {
    fn v(&self) -> u64 {
        match self {
            Delta::Zero => 0,
            Delta::EpsMinus1 => EPS - 1,
            Delta::Eps => EPS,
            Delta::EpsPlus1 => EPS + 1,
            Delta::Big => 200_000,
        }
    }
}

#[derive(Clone, Debug, Serialize, Deserialize, PartialEq, Eq, Hash)]
pub enum RateSel {
    MinMinus3,
    Min,
    Mid,
    Max,
    MaxPlus3,
    Zero,
}

#[derive(Clone, Debug, Serialize, Deserialize)]
pub struct Case {
    pub anchors: bool,
    pub outbound: bool,
    pub upfront: Upfront,
    /// counterparty view differs from the holder view by this much (sign)
    pub view_delta: Delta,
    pub view_delta_neg: bool,
    pub htlc_in_holder: bool,
    pub htlc_in_cp: bool,
    pub missing_holder_commitment: bool,
    pub missing_cp_commitment: bool,
    /// allowlist edit between open and close: remove the allowlisted script
    pub remove_allowlisted: bool,
    // proposal
    pub phase1: bool,
    pub holder_script: ScriptKind,
    pub holder_script_equals_upfront: bool,
    /// the non-paying side's value relative to the holder view
    pub prop_delta: Delta,
    pub prop_delta_neg: bool,
    pub rate: RateSel,
    pub holder_first: bool,
    pub extra_output: bool,
    pub cp_zero: bool,
    /// the proposal hands the holder's share to the other side: no holder output at all and the
    /// counterparty output carries (almost) the whole channel value
    #[serde(default)]
    pub cp_takes_holder_share: bool,
    /// with htlc_in_holder: holder commitment 1 is first validated in a version *without* the
    /// HTLC and then replaced by the version with it before commitment 0 is revoked (the later
    /// validation is the one that counts)
    #[serde(default)]
    pub holder_replaced: bool,
    /// Some((i, d)): wire group: the channel is opened through the protocol handlers with an
    /// allowlisted upfront shutdown script (and local_shutdown_wallet_index = Some(3) if i is
    /// odd), commitments 0 are exchanged over the wire and SignMutualCloseTx2 pays the holder to
    /// the upfront script (d = 0), another allowlisted script (1) or a wallet address (2)
    #[serde(default)]
    pub wire: Option<(u8, u8)>,
    /// with remove_allowlisted: how the allowlisted script is removed (see world::allowlist_edit:
    /// alone, next to an entry that was never listed, in either order, with or without a restart)
    #[serde(default)]
    pub allow_edit: u8,
    /// API group: the signer runs with OnchainValidatorFactory (vlsd's default) and the channel's
    /// funding transaction is confirmed on the tracker's chain
    #[serde(default)]
    pub onchain: bool,
    /// start-up allowlist scenario (wire): the signer's HandlerBuilder was given a start-up
    /// allowlist with one address D ("only used if node is new"); (run-time edit: 0 none, 1 remove
    /// [D], 2 remove [D, absent], 3 remove [absent, D]; restarts with the same start-up
    /// configuration 0..2); then a mutual close paying the holder to D
    #[serde(default)]
    pub startup: Option<(u8, u8)>,
    /// API group, raw entry point: the input of the supplied transaction (0 = the funding outpoint;
    /// 1 = another txid; 2 = another output index of the funding transaction; 3 = a second input
    /// next to the funding outpoint)
    #[serde(default)]
    pub raw_input: u8,
    /// API group: the channel write of the first attempt fails (one-shot storage fault), the node
    /// retries the same close; the retry is the request that is judged (a released closing
    /// signature must be matched by a closed flag in the store)
    #[serde(default)]
    pub fault_retry: bool,
    /// API group, simple factory: the operator's policy filter is a carve-out in vlsd's
    /// `--policy-filter` order: `policy-mutual-*` and `policy-onchain-format-standard` (the tag of the
    /// raw entry point's rebuilt-transaction comparison) stay errors, every other `policy-*` rule is only
    /// logged; what the property says about a signed close must still hold
    #[serde(default)]
    pub carve_out: bool,
}

fn delta_strat() -> impl Strategy<Value = Delta> {
    prop_oneof![6 => Just(Delta::Zero), 2 => Just(Delta::EpsMinus1), 2 => Just(Delta::Eps), 2 => Just(Delta::EpsPlus1), 1 => Just(Delta::Big)]
}

fn kind_strat() -> impl Strategy<Value = ScriptKind> {
    prop_oneof![
        5 => Just(ScriptKind::WalletP2wpkh), 2 => Just(ScriptKind::WalletP2sh), 2 => Just(ScriptKind::WalletP2tr), 2 => Just(ScriptKind::WalletWrongPath),
        3 => Just(ScriptKind::Allowlisted), 2 => Just(ScriptKind::XpubDerived), 3 => Just(ScriptKind::Foreign), 1 => Just(ScriptKind::Absent),
    ]
}

pub struct C07;

struct Wallet {
    xpub: Xpub,
    network: Network,
}

impl Wallet {
    fn pk(&self, secp: &bitcoin::secp256k1::Secp256k1<bitcoin::secp256k1::All>, idx: u32) -> CompressedPublicKey {
        let path: DerivationPath = vec![ChildNumber::from_normal_idx(idx).unwrap()].into();
        CompressedPublicKey(self.xpub.derive_pub(secp, &path).unwrap().public_key)
    }
    fn scripts(&self, secp: &bitcoin::secp256k1::Secp256k1<bitcoin::secp256k1::All>, idx: u32) -> [ScriptBuf; 3] {
        let pk = self.pk(secp, idx);
        [
            Address::p2wpkh(&pk, self.network).script_pubkey(),
            Address::p2shwpkh(&pk, self.network).script_pubkey(),
            Address::p2tr(secp, UntweakedPublicKey::from(pk.0), None, self.network).script_pubkey(),
        ]
    }
}

fn path_of(idx: u32) -> DerivationPath {
    vec![ChildNumber::from_normal_idx(idx).unwrap()].into()
}

impl C07 {
    /// Start-up allowlist scenario (see Case::startup).
    fn run_startup(&self, case: &Case, edit: u8, restarts: u8, st: &mut CaseStats, ctx: &Ctx) -> Result<(), Violation> {
        use crate::props::proto::{validate_msg, Negotiation, ProtoWorld, To};
        use vls_protocol::model::PubKey;
        use vls_protocol::msgs::{self, Message};
        use vls_protocol::serde_bolt::{Array, ArrayBE, Octets};
        let net = Network::Testnet;
        let secp = bitcoin::secp256k1::Secp256k1::new();
        let mk = |b: u8| Address::p2wpkh(&CompressedPublicKey(bitcoin::secp256k1::PublicKey::from_secret_key(&secp, &bitcoin::secp256k1::SecretKey::from_slice(&[b; 32]).unwrap())), net);
        let (d, absent) = (mk(0x71), mk(0x72));
        let (ed, eb) = (format!("address:{}", d), format!("address:{}", absent));
        let mut pw = ProtoWorld::new_configured(WorldCfg::default_testnet(), 6, Negotiation::SignerCap, vec![ed.clone()], false);
        if !pw.node().allowlist().map(|l| l.contains(&ed)).unwrap_or(false) {
            return ctx.report(st, Violation::new("C07:wire:startup-allowlist:not-installed-on-new-node", "the start-up allowlist of a new node was not installed".to_string()));
        }
        let mut spec = ChanSpec::basic(1);
        spec.anchors = case.anchors;
        spec.outbound = true;
        spec.value_sat = VALUE;
        spec.push_msat = BASE_CP * 1000;
        let ci = match pw.new_stub(&spec) {
            Out::Ok(i) => i,
            _ => return Ok(()),
        };
        if !pw.setup_chan(ci).is_ok() {
            st.class("startup:setup-refused");
            return Ok(());
        }
        let h0 = finish_content(case.anchors, VALUE, 1000, BASE_CP, vec![], vec![]);
        let signed = pw.chans[ci].cp_sign_holder(&secp, 0, &h0, SigKind::Valid);
        let vm = validate_msg(&pw.chans[ci], &secp, 0, &h0, &signed, false);
        let r1 = pw.request(To::Chan(ci), vm);
        let p0 = pw.chans[ci].cp.point(&secp, 0);
        let r2 = pw.request(To::Chan(ci), Message::SignRemoteCommitmentTx2(msgs::SignRemoteCommitmentTx2 {
            remote_per_commitment_point: PubKey(p0.serialize()),
            commitment_number: 0,
            feerate: h0.feerate,
            to_local_value_sat: h0.to_holder,
            to_remote_value_sat: h0.to_cp,
            htlcs: Array(vec![]),
        }));
        if !r1.is_ok() || !r2.is_ok() {
            st.class("startup:commitments-refused");
            return Ok(());
        }
        let edit = edit % 4;
        let node = pw.node().clone();
        let r = match edit {
            0 => Ok(()),
            1 => node.remove_allowlist(&[ed.clone()]),
            2 => node.remove_allowlist(&[ed.clone(), eb.clone()]),
            _ => node.remove_allowlist(&[eb.clone(), ed.clone()]),
        };
        if r.is_err() {
            st.class("startup:removal-refused");
            return Ok(());
        }
        let restarts = restarts % 3;
        for _ in 0..restarts {
            if !pw.restart().is_ok() {
                st.class("startup:restart-failed");
                return Ok(());
            }
        }
        let cp_script = mk(0x33).script_pubkey();
        let dest = d.script_pubkey();
        let weight = ClosingTransaction::new(1_000_000, 1_000_000, dest.clone(), cp_script.clone(), pw.chans[ci].setup.funding_outpoint).trust().built_transaction().weight().to_wu() + 222;
        let fee = 2000 * weight / 1000;
        let rep = pw.request(To::Chan(ci), Message::SignMutualCloseTx2(msgs::SignMutualCloseTx2 {
            to_local_value_sat: VALUE - BASE_CP - fee,
            to_remote_value_sat: BASE_CP,
            local_script: Octets(dest.as_bytes().to_vec()),
            remote_script: Octets(cp_script.as_bytes().to_vec()),
            local_wallet_path_hint: ArrayBE(vec![]),
        }));
        st.class(format!("startup:edit{}:restarts{}:{}", edit, restarts, rep.tag()));
        st.sample = Some(json!({"startup": [edit, restarts], "result": rep.tag(), "err": rep.err_msg()}));
        if edit != 0 {
            st.nontrivial_shape(("startup", edit, restarts, case.anchors));
            if rep.is_ok() {
                return ctx.report(st, Violation::new(
                    format!("C07:wire:startup-allowlist:removed-destination-paid{}", if restarts > 0 { "-after-restart" } else { "" }),
                    format!("a destination removed from the allowlist at run time (edit {}) received the holder's {} sat in a signed mutual close after {} restart(s) with the same start-up configuration (allowlist now {:?})", edit, VALUE - BASE_CP - fee, restarts, pw.node().allowlist().unwrap_or_default()),
                ));
            }
        } else if rep.is_ok() {
            st.nontrivial_shape(("startup-control", restarts, case.anchors));
        }
        Ok(())
    }

    /// Wire group: upfront shutdown script conveyed by SetupChannel, close through SignMutualCloseTx2.
    fn run_wire(&self, case: &Case, idx_sel: u8, dest_sel: u8, st: &mut CaseStats, ctx: &Ctx) -> Result<(), Violation> {
        use crate::props::proto::{validate_msg, Negotiation, ProtoWorld, To};
        use vls_protocol::model::PubKey;
        use vls_protocol::msgs::{self, Message};
        use vls_protocol::serde_bolt::{Array, ArrayBE, Octets};
        let net = Network::Testnet;
        let mut pw = ProtoWorld::new(WorldCfg::default_testnet(), 6, Negotiation::SignerCap);
        let secp = pw.secp.clone();
        let mk = |b: u8| Address::p2wpkh(&CompressedPublicKey(bitcoin::secp256k1::PublicKey::from_secret_key(&secp, &bitcoin::secp256k1::SecretKey::from_slice(&[b; 32]).unwrap())), net);
        let (x, y) = (mk(9), mk(10));
        pw.node().add_allowlist(&[format!("address:{}", x), format!("address:{}", y)]).expect("allowlist");
        let wallet = Wallet { xpub: pw.node().get_account_extended_pubkey(), network: net };
        let mut spec = ChanSpec::basic(1);
        spec.anchors = case.anchors;
        spec.outbound = true;
        spec.value_sat = VALUE;
        spec.push_msat = BASE_CP * 1000;
        let ci = match pw.new_stub(&spec) {
            Out::Ok(i) => i,
            _ => return Ok(()),
        };
        pw.chans[ci].setup.holder_shutdown_script = Some(x.script_pubkey());
        pw.shutdown_wallet_index = if idx_sel % 2 == 1 { Some(3) } else { None };
        pw.check_setup = false;
        let r = pw.setup_chan(ci);
        st.class(format!("wire:setup(idx {}):{}", idx_sel % 2, r.tag()));
        if !r.is_ok() {
            return Ok(());
        }
        // commitments 0 over the wire
        let h0 = finish_content(case.anchors, VALUE, 1000, BASE_CP, vec![], vec![]);
        let signed = pw.chans[ci].cp_sign_holder(&secp, 0, &h0, SigKind::Valid);
        let vm = validate_msg(&pw.chans[ci], &secp, 0, &h0, &signed, false);
        let r1 = pw.request(To::Chan(ci), vm);
        let p0 = pw.chans[ci].cp.point(&secp, 0);
        let r2 = pw.request(To::Chan(ci), Message::SignRemoteCommitmentTx2(msgs::SignRemoteCommitmentTx2 {
            remote_per_commitment_point: PubKey(p0.serialize()),
            commitment_number: 0,
            feerate: h0.feerate,
            to_local_value_sat: h0.to_holder,
            to_remote_value_sat: h0.to_cp,
            htlcs: Array(vec![]),
        }));
        if !r1.is_ok() || !r2.is_ok() {
            st.class(format!("wire:commitments-refused:{}:{}", r1.tag(), r2.tag()));
            return Ok(());
        }
        // the close proposal
        let (dest, hint, dname): (ScriptBuf, Vec<u32>, &str) = match dest_sel % 3 {
            0 => (x.script_pubkey(), vec![], "upfront"),
            1 => (y.script_pubkey(), vec![], "other-allowlisted"),
            _ => (wallet.scripts(&secp, 3)[0].clone(), vec![3], "wallet"),
        };
        let cp_script = Address::p2wpkh(&CompressedPublicKey(bitcoin::secp256k1::PublicKey::from_secret_key(&secp, &bitcoin::secp256k1::SecretKey::from_slice(&[0x33; 32]).unwrap())), net).script_pubkey();
        let weight = ClosingTransaction::new(1_000_000, 1_000_000, dest.clone(), cp_script.clone(), pw.chans[ci].setup.funding_outpoint).trust().built_transaction().weight().to_wu() + 222;
        let fee = 2000 * weight / 1000;
        let (to_h, to_c) = (VALUE - BASE_CP - fee, BASE_CP);
        let rep = pw.request(To::Chan(ci), Message::SignMutualCloseTx2(msgs::SignMutualCloseTx2 {
            to_local_value_sat: to_h,
            to_remote_value_sat: to_c,
            local_script: Octets(dest.as_bytes().to_vec()),
            remote_script: Octets(cp_script.as_bytes().to_vec()),
            local_wallet_path_hint: ArrayBE(hint),
        }));
        st.class(format!("wire:close-to-{}:{}", dname, rep.tag()));
        st.sample = Some(json!({"case": case, "wire": [idx_sel, dest_sel], "result": rep.tag(), "err": rep.err_msg()}));
        if rep.is_ok() && dest_sel % 3 != 0 {
            return ctx.report(st, Violation::new(
                "C07:wire:accepted-bad-close:holder-destination-differs-from-upfront-script",
                format!("channel opened over the wire with upfront shutdown script {} (wallet index {:?}); a close paying the holder to {} ({}) was signed", x, pw.shutdown_wallet_index, dest, dname),
            ));
        }
        st.nontrivial_shape(("wire", idx_sel % 2, dest_sel % 3, rep.is_ok(), case.anchors));
        Ok(())
    }
}

impl Prop for C07 {
    type Case = Case;
    fn id(&self) -> &'static str {
        "C07"
    }
    fn rule(&self) -> String {
        "channel states reached by real requests (holder and counterparty commitment 0 or 1, with/without a pending HTLC in either, views \
         differing by 0, eps-1, eps, eps+1 or a lot, either commitment missing), funder or not, upfront shutdown script none / wallet / \
         allowlisted, allowlist edited between open and close; one close proposal through the raw (tx + per-output path hints, 1-3 outputs, \
         both orders) or the semantic entry point: holder script wallet p2wpkh / p2sh-p2wpkh / p2tr with right or wrong path hint, \
         allowlisted script, xpub-derived, foreign, or absent; non-paying side's value at commitment value +-{0, eps-1, eps, eps+1, big}; fee \
         from a rate at min-3, min, mid, max, max+3 or 0. Oracle: acceptance implies (for some output assignment on the raw path) no HTLC in \
         either current commitment, fee rate in range over the canonical transaction weight + 222, non-paying side within eps of both \
         commitments, holder output wallet-derivable with the supplied path or allowlisted at signing time and equal to the upfront script \
         if one was fixed; the signature verifies against the harness-built closing transaction spending the funding outpoint; \
         channel_closed is true in memory and in a signer restored from the store. Non-trivial: accepted two-output closes on states with \
         unequal views, and refused proposals; distinct by (state class, proposal class, result)."
            .into()
    }
    fn assumptions(&self) -> Vec<String> {
        vec![
            "closing transaction built with LDK ClosingTransaction from (values, scripts, funding outpoint); witness weight constant 222 from BOLT-3".into(),
            "fee-rate tolerance +2/kw below the minimum as in C05".into(),
        ]
    }
    fn cases(&self, tier: Tier) -> u32 {
        tier.pick(4000, 60_000)
    }
    fn min_nontrivial(&self, tier: Tier) -> usize {
        tier.pick(150, 1000)
    }
    fn strategy(&self, _tier: Tier) -> BoxedStrategy<Case> {
        (
            (any::<bool>(), any::<bool>(), prop_oneof![3 => Just(Upfront::None), 1 => Just(Upfront::Wallet), 1 => Just(Upfront::Allowlisted)], delta_strat(), any::<bool>()),
            (prop::bool::weighted(0.12), prop::bool::weighted(0.12), prop::bool::weighted(0.04), prop::bool::weighted(0.04), prop::bool::weighted(0.2)),
            (any::<bool>(), kind_strat(), prop::bool::weighted(0.8), delta_strat(), any::<bool>()),
            (prop_oneof![1 => Just(RateSel::MinMinus3), 2 => Just(RateSel::Min), 5 => Just(RateSel::Mid), 2 => Just(RateSel::Max), 1 => Just(RateSel::MaxPlus3), 1 => Just(RateSel::Zero)], any::<bool>(), prop::bool::weighted(0.08), prop::bool::weighted(0.1), prop::bool::weighted(0.12), prop::bool::weighted(0.4), prop_oneof![12 => Just(None), 1 => (0u8..2, 0u8..3).prop_map(Some)], 1u8..13, prop::bool::weighted(0.35), prop_oneof![30 => Just(None), 1 => (0u8..4, 0u8..3).prop_map(Some)]),
            (prop_oneof![6 => Just(0u8), 1 => Just(1u8), 1 => Just(2u8), 1 => Just(3u8)], prop::bool::weighted(0.15), prop::bool::weighted(0.25)),
        )
            .prop_map(|((anchors, outbound, upfront, view_delta, view_delta_neg), (htlc_in_holder, htlc_in_cp, mh, mc, remove_allowlisted), (phase1, holder_script, hseu, prop_delta, prop_delta_neg), (rate, holder_first, extra_output, cp_zero, cp_takes_holder_share, holder_replaced, wire, allow_edit, onchain, startup), (raw_input, fault_retry, carve_out))| Case {
                carve_out: carve_out && wire.is_none() && !onchain && startup.is_none(),
                startup,
                raw_input: if phase1 { raw_input } else { 0 },
                fault_retry,
                onchain: onchain && wire.is_none(),
                anchors, outbound, upfront, view_delta, view_delta_neg, htlc_in_holder, htlc_in_cp, missing_holder_commitment: mh, missing_cp_commitment: mc, remove_allowlisted,
                phase1, holder_script, holder_script_equals_upfront: hseu, prop_delta, prop_delta_neg, rate, holder_first, extra_output, cp_zero, cp_takes_holder_share, holder_replaced, wire, allow_edit,
            })
            .boxed()
    }

    fn run(&self, case: &Case, st: &mut CaseStats, ctx: &Ctx) -> Result<(), Violation> {
        if let Some((edit, restarts)) = case.startup {
            return self.run_startup(case, edit, restarts, st, ctx);
        }
        if let Some((idx_sel, dest_sel)) = case.wire {
            return self.run_wire(case, idx_sel, dest_sel, st, ctx);
        }
        let mut cfg0 = WorldCfg::default_testnet();
        if case.carve_out && !case.onchain {
            use lightning_signer::policy::filter::{FilterResult, FilterRule, PolicyFilter};
            let mut f = PolicyFilter::default();
            f.merge(PolicyFilter {
                rules: vec![
                    FilterRule { tag: "policy-mutual-".to_string(), is_prefix: true, action: FilterResult::Error },
                    // the raw entry point reports a transaction that is not the rebuilt closing
                    // transaction under this tag
                    FilterRule { tag: "policy-onchain-format-standard".to_string(), is_prefix: false, action: FilterResult::Error },
                    FilterRule { tag: "policy-".to_string(), is_prefix: true, action: FilterResult::Warn },
                ],
            });
            cfg0.policy.filter.merge(f);
            st.class("carve_out_filter");
        }
        let mut w = if case.onchain { World::new_onchain(cfg0) } else { World::new(cfg0) };
        st.class(if case.onchain { "onchain-factory" } else { "simple-factory" });
        let secp = w.secp.clone();
        let net = Network::Testnet;
        let wallet = Wallet { xpub: w.node.get_account_extended_pubkey(), network: net };
        // allowlist: one script and one xpub
        let allow_pk = CompressedPublicKey(PublicKey::from_secret_key(&secp, &SecretKey::from_slice(&[9u8; 32]).unwrap()));
        let allow_addr = Address::p2wpkh(&allow_pk, net);
        let allow_script = allow_addr.script_pubkey();
        let xpriv = Xpriv::new_master(net, &[7u8; 32]).unwrap();
        let axpub = Xpub::from_priv(&secp, &xpriv);
        w.node.add_allowlist(&[format!("address:{}", allow_addr), format!("xpub:{}", axpub)]).expect("allowlist");
        let foreign_script = Address::p2wpkh(&CompressedPublicKey(PublicKey::from_secret_key(&secp, &SecretKey::from_slice(&[8u8; 32]).unwrap())), net).script_pubkey();
        let cp_script = Address::p2wpkh(&CompressedPublicKey(PublicKey::from_secret_key(&secp, &SecretKey::from_slice(&[6u8; 32]).unwrap())), net).script_pubkey();

        // channel
        let mut spec = ChanSpec::basic(1);
        spec.anchors = case.anchors;
        spec.outbound = case.outbound;
        spec.value_sat = VALUE;
        spec.push_msat = (BASE_CP + 300_000) * 1000;
        let ci = w.new_stub(&spec).ok().expect("stub");
        let upfront_idx = 5u32;
        let upfront_script: Option<ScriptBuf> = match case.upfront {
            Upfront::None => None,
            Upfront::Wallet => Some(wallet.scripts(&secp, upfront_idx)[0].clone()),
            Upfront::Allowlisted => Some(allow_script.clone()),
        };
        w.chans[ci].setup.holder_shutdown_script = upfront_script.clone();
        // with the on-chain validator the funding transaction is a real one, confirmed below
        let funding_tx = if case.onchain { Some(crate::chainpool::funding_tx_for(&mut w, ci)) } else { None };
        {
            let node = w.node.clone();
            let id0 = w.chans[ci].id0.clone();
            let setup = w.chans[ci].setup.clone();
            let p = if matches!(case.upfront, Upfront::Wallet) { path_of(upfront_idx) } else { DerivationPath::master() };
            let r = call(|| node.setup_channel(id0.clone(), None, setup.clone(), &p).map(|_| ()));
            if !r.is_ok() {
                st.class(format!("setup-refused:{}", short_err(&r.err_msg())));
                return Ok(());
            }
            w.chans[ci].is_ready = true;
        }
        if let Some(ftx) = &funding_tx {
            crate::chainpool::confirm_tx(&mut w, ftx, 1);
        }

        // commitments
        let d = case.view_delta.v();
        let cp_to_cp = if case.view_delta_neg { BASE_CP - d } else { BASE_CP + d };
        let h0 = finish_content(case.anchors, VALUE, 1000, BASE_CP, vec![], vec![]);
        let c0 = finish_content(case.anchors, VALUE, 1000, cp_to_cp, vec![], vec![]);
        let mut holder_cur: Option<Content> = None;
        let mut cp_cur: Option<Content> = None;
        if !case.missing_holder_commitment {
            let s = w.chans[ci].cp_sign_holder(&secp, 0, &h0, SigKind::Valid);
            let r = w.with_chan(ci, |ch| {
                ch.validate_holder_commitment_tx_phase2(0, h0.feerate, h0.to_holder, h0.to_cp, vec![], vec![], &s.commit_sig, &s.htlc_sigs)?;
                ch.activate_initial_commitment()
            });
            if !r.is_ok() {
                panic!("holder 0 failed: {}", r.err_msg());
            }
            holder_cur = Some(h0.clone());
            if case.htlc_in_holder {
                let h1 = finish_content(case.anchors, VALUE, 1000, BASE_CP - 50_000, vec![], vec![Htlc { h: 2, sat: 50_000, cltv: 1000 }]);
                if case.holder_replaced {
                    // an earlier version of commitment 1 (no HTLC, slightly other fee rate), replaced below
                    let h1a = finish_content(case.anchors, VALUE, 1100, BASE_CP, vec![], vec![]);
                    let sa = w.chans[ci].cp_sign_holder(&secp, 1, &h1a, SigKind::Valid);
                    // both versions through the raw-transaction entry point (ValidateCommitmentTx) when the
                    // close is requested through the raw entry point as well, else through the semantic one
                    let ra = if case.phase1 {
                        let tx = sa.tx.trust().built_transaction().transaction.clone();
                        let ws = witscripts(&w.chans[ci], &secp, &sa.tx, true);
                        w.with_chan(ci, |ch| ch.validate_holder_commitment_tx(&tx, &ws, 1, h1a.feerate, vec![], vec![], &sa.commit_sig, &sa.htlc_sigs).map(|_| ()))
                    } else {
                        w.with_chan(ci, |ch| ch.validate_holder_commitment_tx_phase2(1, h1a.feerate, h1a.to_holder, h1a.to_cp, vec![], vec![], &sa.commit_sig, &sa.htlc_sigs).map(|_| ()))
                    };
                    st.class(format!("holder-commitment-replaced:first-version:{}:{}", if case.phase1 { "raw" } else { "semantic" }, ra.tag()));
                }
                let s = w.chans[ci].cp_sign_holder(&secp, 1, &h1, SigKind::Valid);
                let (o, r) = (to_info2(&h1.offered), to_info2(&h1.received));
                let r = if case.holder_replaced && case.phase1 {
                    let tx = s.tx.trust().built_transaction().transaction.clone();
                    let ws = witscripts(&w.chans[ci], &secp, &s.tx, true);
                    w.with_chan(ci, |ch| {
                        ch.validate_holder_commitment_tx(&tx, &ws, 1, h1.feerate, o.clone(), r.clone(), &s.commit_sig, &s.htlc_sigs)?;
                        ch.revoke_previous_holder_commitment(1)
                    })
                } else {
                    w.with_chan(ci, |ch| {
                        ch.validate_holder_commitment_tx_phase2(1, h1.feerate, h1.to_holder, h1.to_cp, o.clone(), r.clone(), &s.commit_sig, &s.htlc_sigs)?;
                        ch.revoke_previous_holder_commitment(1)
                    })
                };
                if r.is_ok() {
                    holder_cur = Some(h1);
                }
            }
        }
        if !case.missing_cp_commitment {
            let p0 = w.chans[ci].cp.point(&secp, 0);
            let r = w.with_chan(ci, |ch| ch.sign_counterparty_commitment_tx_phase2(&p0, 0, c0.feerate, c0.to_holder, c0.to_cp, vec![], vec![]));
            if !r.is_ok() {
                panic!("cp 0 failed: {}", r.err_msg());
            }
            cp_cur = Some(c0.clone());
            if case.htlc_in_cp {
                let c1 = finish_content(case.anchors, VALUE, 1000, cp_to_cp - 50_000, vec![], vec![Htlc { h: 2, sat: 50_000, cltv: 1000 }]);
                let p1 = w.chans[ci].cp.point(&secp, 1);
                let (cpo, cpr) = (to_info2(&c1.received), to_info2(&c1.offered));
                let r = w.with_chan(ci, |ch| ch.sign_counterparty_commitment_tx_phase2(&p1, 1, c1.feerate, c1.to_holder, c1.to_cp, cpo.clone(), cpr.clone()));
                if r.is_ok() {
                    cp_cur = Some(c1);
                }
            }
        }
        // allowlist edit
        let mut allowlisted_now = true;
        if case.remove_allowlisted {
            let absent = Address::p2wpkh(&CompressedPublicKey(bitcoin::secp256k1::PublicKey::from_secret_key(&secp, &bitcoin::secp256k1::SecretKey::from_slice(&[0x3c; 32]).unwrap())), Network::Testnet);
            let kind = if case.allow_edit == 0 { 1 } else { case.allow_edit };
            allowlisted_now = crate::world::allowlist_edit(&mut w, &format!("address:{}", allow_addr), &format!("address:{}", absent), kind);
            st.class(format!("allowlist_edit:{}", crate::world::allowlist_edit_label(kind)));
        }

        // --- proposal ---
        let widx = 3u32;
        let (hscript, hpath): (Option<ScriptBuf>, DerivationPath) = match case.holder_script {
            ScriptKind::WalletP2wpkh => (Some(wallet.scripts(&secp, widx)[0].clone()), path_of(widx)),
            ScriptKind::WalletP2sh => (Some(wallet.scripts(&secp, widx)[1].clone()), path_of(widx)),
            ScriptKind::WalletP2tr => (Some(wallet.scripts(&secp, widx)[2].clone()), path_of(widx)),
            ScriptKind::WalletWrongPath => (Some(wallet.scripts(&secp, widx)[0].clone()), path_of(widx + 1)),
            ScriptKind::Allowlisted => (Some(allow_script.clone()), DerivationPath::master()),
            ScriptKind::XpubDerived => {
                let pk = CompressedPublicKey(axpub.derive_pub(&secp, &path_of(widx)).unwrap().public_key);
                (Some(Address::p2wpkh(&pk, net).script_pubkey()), path_of(widx))
            }
            ScriptKind::Foreign => (Some(foreign_script.clone()), DerivationPath::master()),
            ScriptKind::Absent => (None, DerivationPath::master()),
        };
        let (hscript, hpath) = if case.holder_script_equals_upfront && upfront_script.is_some() && hscript.is_some() {
            (upfront_script.clone(), if matches!(case.upfront, Upfront::Wallet) { path_of(upfront_idx) } else { DerivationPath::master() })
        } else {
            (hscript, hpath)
        };
        let pd = case.prop_delta.v() as i64 * if case.prop_delta_neg { -1 } else { 1 };
        let min_rate = w.cfg.policy.min_feerate_per_kw as u64;
        let max_rate = w.cfg.policy.max_feerate_per_kw as u64;
        let rate = match case.rate {
            RateSel::MinMinus3 => min_rate.saturating_sub(3),
            RateSel::Min => min_rate,
            RateSel::Mid => 2000,
            RateSel::Max => max_rate,
            RateSel::MaxPlus3 => max_rate + 3,
            RateSel::Zero => 0,
        };
        // values: the non-paying side gets commitment value + pd, the payer gets the rest minus fee
        let build = |to_h: u64, to_c: u64| -> Transaction {
            ClosingTransaction::new(to_h, to_c, hscript.clone().unwrap_or_default(), cp_script.clone(), w.chans[ci].setup.funding_outpoint).trust().built_transaction().clone()
        };
        let approx_weight = build(1_000_000, 1_000_000).weight().to_wu() + 222;
        let fee = rate * approx_weight / 1000;
        let (mut to_h, mut to_c): (u64, u64) = if case.outbound {
            let c = (BASE_CP as i64 + pd).max(0) as u64;
            (VALUE.saturating_sub(c).saturating_sub(fee), c)
        } else {
            let h = ((VALUE - BASE_CP) as i64 + pd).max(0) as u64;
            (h, VALUE.saturating_sub(h).saturating_sub(fee))
        };
        if case.cp_takes_holder_share {
            // everything but the fee goes to the counterparty
            to_c = VALUE.saturating_sub(fee);
            to_h = 0;
            st.class("proposal:counterparty-takes-holder-share");
        }
        if hscript.is_none() {
            to_h = 0;
        }
        if case.cp_zero {
            to_c = 0;
        }
        let cscript_opt = if to_c > 0 { Some(cp_script.clone()) } else { None };
        let hscript_opt = if to_h > 0 { hscript.clone() } else { None };

        // --- issue ---
        let closing = ClosingTransaction::new(to_h, to_c, hscript_opt.clone().unwrap_or_default(), cscript_opt.clone().unwrap_or_default(), w.chans[ci].setup.funding_outpoint);
        let canonical = closing.trust().built_transaction().clone();
        // output facts, per actual output of the raw transaction
        struct OutFact {
            value: u64,
            script: ScriptBuf,
            path: DerivationPath,
        }
        let mut raw_tx = canonical.clone();
        let mut facts: Vec<OutFact> = vec![];
        let res: Out<Signature> = if case.phase1 {
            // LDK orders outputs by BIP69; optionally reverse, optionally add a third output
            if !case.holder_first && raw_tx.output.len() == 2 {
                raw_tx.output.swap(0, 1);
            }
            if case.extra_output {
                raw_tx.output.push(bitcoin::TxOut { value: bitcoin::Amount::from_sat(1000), script_pubkey: foreign_script.clone() });
            }
            let mut opaths = vec![];
            for o in raw_tx.output.iter() {
                let p = if Some(&o.script_pubkey) == hscript_opt.as_ref() { hpath.clone() } else { DerivationPath::master() };
                opaths.push(p.clone());
                facts.push(OutFact { value: o.value.to_sat(), script: o.script_pubkey.clone(), path: p });
            }
            match case.raw_input {
                1 => raw_tx.input[0].previous_output.txid = { use bitcoin::hashes::Hash; bitcoin::Txid::from_slice(&[0x5a; 32]).unwrap() },
                2 => raw_tx.input[0].previous_output.vout ^= 1,
                3 => {
                    let mut extra = raw_tx.input[0].clone();
                    extra.previous_output.vout = extra.previous_output.vout.wrapping_add(7);
                    raw_tx.input.push(extra);
                }
                _ => {}
            }
            if case.raw_input != 0 {
                st.class(format!("raw-input-mutation:{}", case.raw_input));
            }
            let tx = raw_tx.clone();
            if case.fault_retry {
                w.fault.arm();
                let first = w.with_chan(ci, |ch| ch.sign_mutual_close_tx(&tx, &opaths));
                st.class(format!("fault-then-retry:first-attempt:{}", first.tag()));
            }
            w.with_chan(ci, |ch| ch.sign_mutual_close_tx(&tx, &opaths))
        } else {
            let (hs, cs, hp) = (hscript_opt.clone(), cscript_opt.clone(), hpath.clone());
            if case.fault_retry {
                w.fault.arm();
                let first = w.with_chan(ci, |ch| ch.sign_mutual_close_tx_phase2(to_h, to_c, &hs, &cs, &hp));
                st.class(format!("fault-then-retry:first-attempt:{}", first.tag()));
            }
            w.with_chan(ci, |ch| ch.sign_mutual_close_tx_phase2(to_h, to_c, &hs, &cs, &hp))
        };
        // a fault that was armed but never reached (the first attempt was refused by policy) must not
        // hit a later write of the harness itself
        w.fault.disarm();
        let ename = if case.phase1 { "raw" } else { "semantic" };
        st.class(format!("{}:{}", ename, res.tag()));
        if std::env::var("VERIF_ERRCLASS").is_ok() && !res.is_ok() {
            st.class(format!("E:{}:{}", ename, short_err(&res.err_msg())));
        }
        st.sample = Some(json!({"case": case, "to_holder": to_h, "to_cp": to_c, "fee": fee, "result": res.tag(), "err": res.err_msg()}));
        let state_class = (case.view_delta.clone(), case.htlc_in_holder, case.htlc_in_cp, case.outbound, case.upfront.clone());
        let prop_class = (case.holder_script.clone(), case.prop_delta.clone(), case.rate.clone(), case.phase1);
        let Out::Ok(sig) = res else {
            st.nontrivial_shape(("refused", state_class, prop_class));
            return Ok(());
        };

        // --- accepted: reference predicate ---
        // script facts known by construction
        let derivable = |script: &ScriptBuf, path: &DerivationPath| -> bool {
            if path.len() != 1 {
                return false;
            }
            let idx = match path[0] {
                ChildNumber::Normal { index } => index,
                _ => return false,
            };
            wallet.scripts(&secp, idx).iter().any(|s| s == script)
        };
        let allowlisted = |script: &ScriptBuf, path: &DerivationPath| -> bool {
            if allowlisted_now && *script == allow_script {
                return true;
            }
            if path.len() == 1 {
                if let Ok(x) = axpub.derive_pub(&secp, path) {
                    let pk = CompressedPublicKey(x.public_key);
                    if *script == Address::p2wpkh(&pk, net).script_pubkey() || *script == Address::p2pkh(&pk, net).script_pubkey()
                        || *script == Address::p2tr(&secp, UntweakedPublicKey::from(pk.0), None, net).script_pubkey() {
                        return true;
                    }
                }
            }
            false
        };
        let check_assignment = |th: u64, tc: u64, hs: &Option<ScriptBuf>, hp: &DerivationPath, weight: u64| -> Vec<&'static str> {
            let mut bad = vec![];
            let (Some(hc), Some(cc)) = (&holder_cur, &cp_cur) else {
                return vec!["commitment-missing"];
            };
            if !hc.offered.is_empty() || !hc.received.is_empty() || !cc.offered.is_empty() || !cc.received.is_empty() {
                bad.push("pending-htlcs");
            }
            let sum = th as u128 + tc as u128;
            if sum > VALUE as u128 {
                bad.push("fee-negative");
            } else {
                let f = VALUE as u128 - sum;
                let rf = f * 1000 / weight as u128;
                if rf > max_rate as u128 || rf + 2 < min_rate as u128 {
                    bad.push("fee-range");
                }
            }
            let within = |a: u64, b: u64| (a as i128 - b as i128).abs() <= EPS as i128;
            if case.outbound {
                if !within(tc, cc.to_cp) || !within(tc, hc.to_cp) {
                    bad.push("counterparty-value-not-within-epsilon");
                }
            } else if !within(th, hc.to_holder) || !within(th, cc.to_holder) {
                bad.push("holder-value-not-within-epsilon");
            }
            if th > 0 {
                match hs {
                    None => bad.push("holder-output-missing"),
                    Some(s) => {
                        if !derivable(s, hp) && !allowlisted(s, hp) {
                            bad.push("holder-destination-not-owned-or-allowlisted");
                        }
                        if let Some(u) = &upfront_script {
                            if s != u {
                                bad.push("holder-destination-differs-from-upfront-script");
                            }
                        }
                    }
                }
            }
            bad
        };
        let weight = canonical.weight().to_wu() + 222;
        let mut verdicts: Vec<Vec<&'static str>> = vec![];
        if case.phase1 {
            // every assignment of outputs to holder / counterparty
            let n = facts.len();
            if n > 2 {
                verdicts.push(vec!["more-than-two-outputs"]);
            } else if n == 2 {
                for hi in 0..2 {
                    let (h, c) = (&facts[hi], &facts[1 - hi]);
                    verdicts.push(check_assignment(h.value, c.value, &Some(h.script.clone()), &h.path, weight));
                }
            } else if n == 1 {
                let o = &facts[0];
                verdicts.push(check_assignment(o.value, 0, &Some(o.script.clone()), &o.path, weight));
                verdicts.push(check_assignment(0, o.value, &None, &DerivationPath::master(), weight));
            } else {
                verdicts.push(check_assignment(0, 0, &None, &DerivationPath::master(), weight));
            }
        } else {
            verdicts.push(check_assignment(to_h, to_c, &hscript_opt, &hpath, weight));
        }
        if !verdicts.iter().any(|v| v.is_empty()) {
            let best = verdicts.iter().min_by_key(|v| v.len()).unwrap();
            return ctx.report(st, Violation::new(
                format!("C07:{}:accepted-bad-close:{}", ename, best.first().copied().unwrap_or("?")),
                format!("close accepted although every output assignment breaks a rule: {:?}; case={:?} to_holder={} to_cp={} holder_cur={:?} cp_cur={:?}", verdicts, case, to_h, to_c, holder_cur, cp_cur),
            ));
        }
        // signature over the canonical closing transaction spending the funding outpoint
        let chan = &w.chans[ci];
        let sighash_tx = if case.phase1 { &raw_tx } else { &canonical };
        if secp.verify_ecdsa(&chan.commitment_sighash(sighash_tx), &sig, &chan.holder_pubkeys.funding_pubkey).is_err() {
            return ctx.report(st, Violation::new(format!("C07:{}:signature-not-over-canonical-closing-tx", ename), format!("{:?}", case)));
        }
        if case.phase1 {
            // the accepted raw transaction must be a canonical closing tx for some assignment
            let mut canon_ok = false;
            let n = facts.len();
            let cands: Vec<(u64, u64, ScriptBuf, ScriptBuf)> = if n == 2 {
                vec![(facts[0].value, facts[1].value, facts[0].script.clone(), facts[1].script.clone()), (facts[1].value, facts[0].value, facts[1].script.clone(), facts[0].script.clone())]
            } else if n == 1 {
                vec![(facts[0].value, 0, facts[0].script.clone(), ScriptBuf::new()), (0, facts[0].value, ScriptBuf::new(), facts[0].script.clone())]
            } else {
                vec![(0, 0, ScriptBuf::new(), ScriptBuf::new())]
            };
            for (a, b, sa, sb) in cands {
                let t = ClosingTransaction::new(a, b, sa, sb, chan.setup.funding_outpoint).trust().built_transaction().clone();
                if t == raw_tx {
                    canon_ok = true;
                }
            }
            if !canon_ok {
                return ctx.report(st, Violation::new("C07:raw:accepted-noncanonical-closing-tx", format!("{:?}", case)));
            }
        }
        // closed afterwards, in memory and in the store
        let closed_mem = w.with_chan(ci, |c| Ok(c.enforcement_state.channel_closed)).ok().unwrap_or(false);
        if !closed_mem {
            return ctx.report(st, Violation::new(format!("C07:{}:not-marked-closed-in-memory", ename), format!("{:?}", case)));
        }
        match w.restore_twin() {
            Out::Ok((node2, _)) => {
                let id0 = w.chans[ci].id0.clone();
                let closed2 = node2.with_channel(&id0, |c| Ok(c.enforcement_state.channel_closed)).unwrap_or(false);
                if !closed2 {
                    return ctx.report(st, Violation::new(format!("C07:{}:not-marked-closed-in-store", ename), format!("{:?}", case)));
                }
            }
            o => {
                return ctx.report(st, Violation::new("C07:restore-failed-after-close", o.err_msg()));
            }
        }
        st.class("accepted");
        let two_outputs = to_h > 0 && to_c > 0;
        if two_outputs && !matches!(case.view_delta, Delta::Zero) {
            st.class("accepted_two_outputs_unequal_views");
        }
        st.nontrivial_shape(("accepted", state_class, prop_class, two_outputs));
        Ok(())
    }
}
